/-
  C01 (continued) — multi-field requests.  In a file of its own because the proof goes through the container level
  (CM.Proofs.Tuple, CM.Proofs.BagPipeline), which itself uses the theorems of CM.Props.C01.
-/
import CM.Proofs.Tuple
namespace CM.C01
open CM

/-- **Multi-field requests are returned as a tuple in request order.**  `GraphCompiler._compile((n1, ..., nk))` puts a product
node above the nodes of the requested names (`Bag.withProduct`).  For a well-formed container whose edges are of the kinds
`vm_correct` covers, with every used input bound, no scheduled failure and no impure function, the stack machine run on the graph
compiled for that node stops and returns exactly `(v1, ..., vk)`, `vi` being the value (under the specification
`CM.Model.Denote`) of the term the i-th requested node computes - for every container, every tuple of names, every input. -/
theorem multi_field_request_value {b : Bag} {outs : List BNode} (hb : b.WF) (hlt : ∀ o ∈ outs, o.id < b.next)
    (hac : acyclicB (b.withProduct outs).1.edges = true) (hwf : ∀ e ∈ b.edges, e.edge.wf = true)
    (env : String → Option Val) (w : World)
    (hc : CallOK ((b.withProduct outs).1.compileGraph (b.withProduct outs).2) env) (hf : w.failAt = []) (hp : w.impureFns = [])
    (ts : List BTerm) (vs : List Val) (hl : outs.length = ts.length) (hlv : ts.length = vs.length)
    (hd : ∀ q ∈ outs.zip ts, BDen b q.1 q.2) (hnm : ∀ t ∈ ts, t.NoMissing)
    (hv : ∀ i (h : i < ts.length), (ts[i].den (denCfgOf env w)).v = .ok (vs[i]'(hlv ▸ h))) :
    ∃ N s steps, ∀ fuel, N ≤ fuel →
      ((b.withProduct outs).1.compileGraph (b.withProduct outs).2).call env w fuel = some (.done (.val (.tup vs)) s, steps) :=
  tuple_value hb hlt hac hwf env w hc hf hp ts vs hl hlv hd hnm hv

/-- the product node denotes the tuple of the values of its arguments, in order -/
theorem product_is_tuple (d : DenCfg) (ts : List BTerm) (vs : List Val) (hl : ts.length = vs.length)
    (hv : ∀ i (h : i < ts.length), (ts[i].den d).v = .ok (vs[i]'(hl ▸ h))) :
    ((BTerm.node .product ts).den d).v = .ok (.tup vs) :=
  product_den d ts vs hl hv

/-- non-vacuity (a test): over the inputs `x = 1`, `y = 2` the product of the two inputs denotes `(1, 2)` -/
example : ((BTerm.node .product [.inp "x", .inp "y"]).den
    { env := fun n => if n == "x" then some (.int 1) else some (.int 2) }).v = .ok (.tup [.int 1, .int 2]) := by
  refine product_den _ _ [.int 1, .int 2] rfl ?_
  intro i hi
  match i, hi with
  | 0, _ => simp [BTerm.den]
  | 1, _ => simp [BTerm.den]

/-- **Every binding of an edge is a node of its own.**  In the graph compiled from a container (`TreeNode.from_edges`), two different
container nodes are two different graph nodes - also when they are outputs of the SAME edge object bound to the same parents (a layer
used at two positions of a pipeline): the compiler never merges them, so an impure or stateful function behind both is invoked once per
binding (`C03.at_most_once` counts per graph node).  The model side of what S-COMPILE checks on the real `GraphCompiler`. -/
theorem node_every_binding_is_a_node {b : Bag} {o n m : BNode} (hn : n ∈ b.nodeList o) (hm : m ∈ b.nodeList o) (hne : n ≠ m) :
    b.idx o n ≠ b.idx o m :=
  fun h => hne (idx_inj hn hm h)

/-- non-vacuity (a test): one impure edge description bound twice to no parents gives two graph nodes -/
example :
    let a : BNode := ⟨0, "a"⟩
    let c : BNode := ⟨1, "b"⟩
    let b : Bag := { inputs := [], outputs := [a, c], edges := [{ edge := .impure (.function "tick" [] []), ins := [], out := a },
                       { edge := .impure (.function "tick" [] []), ins := [], out := c }],
                     virt := .fin [], persistent := [], optional := [], ctx := .no, next := 2 }
    b.idx a a ≠ b.idx a c := by decide +kernel

end CM.C01
