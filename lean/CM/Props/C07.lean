/-
  C07 — Hashes depend only on pipeline structure and input (no spurious invalidation).
  Model-level theorems: Silent arguments do not reach the hash; hash-transparent edges report a parent's hash;
  hash-transparent layers (cache layers, pure inheritance) leave every field's term — hence its hash — unchanged;
  re-bracketing does not change the stack (C09).  Process restarts, PYTHONHASHSEED and pickling are runtime facts
  decided by the S-SEED correspondence.
-/
import CM.Proofs.StackLemmas
import CM.Model.Pipe
import CM.Model.Denote
import CM.Proofs.BagField
import CM.Proofs.BagDen
import CM.Proofs.CacheBag
namespace CM.C07
open CM

/-- **Silent.**  The hash of a function edge does not depend on the hashes of its Silent arguments. -/
theorem silent_invariant (silent : List Nat) : ∀ (hs hs' : List NHash), hs.length = hs'.length →
    (∀ i, silent.contains i = false → hs[i]? = hs'[i]?) → silence silent hs = silence silent hs' := by
  intro hs hs' hlen hagree
  simp only [silence]
  apply List.ext_getElem?
  intro i
  simp only [List.getElem?_map, List.getElem?_zipIdx]
  have := hagree i
  cases h1 : hs[i]? with
  | none =>
    have : hs'[i]? = none := by
      rw [List.getElem?_eq_none_iff] at h1 ⊢
      omega
    simp [this]
  | some a =>
    have hlt : i < hs'.length := by
      have := (List.getElem?_eq_some_iff.mp h1).1
      omega
    obtain ⟨b, hb⟩ : ∃ b, hs'[i]? = some b := ⟨hs'[i], by simp [hlt]⟩
    simp only [hb, Option.map_some, Nat.zero_add]
    by_cases hc : silent.contains i = true
    · have hm : i ∈ silent := by simpa using hc
      simp [hm]
    · have hc' : silent.contains i = false := by simpa using hc
      have := hagree i hc'
      rw [h1, hb] at this
      injection this with this
      simp [this]

theorem function_hash_silent (f : String) (kw : List String) (silent : List Nat) (hs hs' : List NHash)
    (hlen : hs.length = hs'.length) (h : ∀ i, silent.contains i = false → hs[i]? = hs'[i]?) :
    (EdgeK.function f kw silent).hashGraph hs = (EdgeK.function f kw silent).hashGraph hs' := by
  simp only [EdgeK.hashGraph, silent_invariant silent hs hs' hlen h]

/-- **Hash-transparent edges**: a cache edge, an identity, a hash barrier (statically) and CheckIds report the hash
of their (first) parent. -/
theorem transparent_edges (hs : List NHash) :
    (EdgeK.cache 0).hashGraph hs = .ok (hs.getD 0 default) ∧ EdgeK.identity.hashGraph hs = .ok (hs.getD 0 default) ∧
    EdgeK.barrier.hashGraph hs = .ok (hs.getD 0 default) ∧ EdgeK.checkIds.hashGraph hs = .ok (hs.getD 0 default) := by
  simp [EdgeK.hashGraph]

/-- at run time as well: the hash a cache edge computes is its parent's hash, whatever store it uses -/
theorem cache_edge_dynamic_hash (c : Ctx) (s : Nat) (h : NHash) (hp : c.ph 0 = .ok h) :
    interp c ((EdgeK.cache s).hashProg 1) = .ok (.hout h .none) := by
  simp [EdgeK.hashProg, staticHash, interp, interpReq, interpReqs, hp, asHashes, List.range, List.range.loop,
    Except.map]

/-- **Cache layers are transparent**: every field computes the same term after a cache layer -/
theorem cache_layer_transparent (s s' : Sig) (l : Layer) (hk : l.kind = .cache) (h : s.step l = .ok s') (n : String) :
    s'.field n = s.field n := by
  unfold Sig.step at h
  simp only [hk] at h
  injection h with h
  subst h
  simp only [Sig.field, Sig.get, lookupAssoc, List.find?_map, Function.comp_def]
  cases hf : List.find? (fun p => p.1 == n) s.out with
  | none => simp
  | some p => obtain ⟨m, e, o⟩ := p; cases e <;> simp

/-- **Re-bracketing / nesting chains** leaves the stack, hence every term and hash, unchanged -/
theorem bracketing_same (p q : Pipe) (h : p.flatten = q.flatten) : p.sig = q.sig := by
  simp [Pipe.sig, h]

/-- non-vacuity of `silent_invariant`: position 1 is Silent -/
example : silence [1] [.leaf (.int 1), .leaf (.int 2)] = silence [1] [.leaf (.int 1), .leaf (.int 99)] := by
  apply silent_invariant [1] _ _ rfl
  intro i hi
  match i with
  | 0 => rfl
  | 1 => simp at hi
  | n + 2 => rfl

/-! ## Node level: a cache layer connected to a bag (`connect_bags`, gluing theorem) -/


/-- **A cache edge is transparent for the denotation**: the node hash is the parent's hash, and (every lookup being a miss
in the specification) the value is the parent's value whenever the parent has a hash. -/
theorem cache_node_den (d : DenCfg) (s : Nat) (t : BTerm) :
    ((BTerm.node (.cache s) [t]).den d).h.map (·.1) = (t.den d).h.map (·.1) ∧
    (∀ hh, (t.den d).h = .ok hh → ((BTerm.node (.cache s) [t]).den d).v = (t.den d).v) := by
  constructor
  · simp only [BTerm.den, BTerm.denList, EdgeK.hashProg, staticHash, List.length_cons, List.length_nil, Nat.zero_add,
      List.range, List.range.loop, List.map_cons, List.map_nil, interp, interpReq, interpReqs]
    cases hh : (t.den d).h with
    | error e => simp [Except.map, Except.bind, hh]
    | ok p =>
      obtain ⟨h, pl⟩ := p
      simp [Except.map, Except.bind, hh, asHashes, interp, Item.asHout]
  · intro hh hok
    obtain ⟨h, pl⟩ := hh
    simp only [BTerm.den, BTerm.denList, EdgeK.hashProg, EdgeK.evalProg, staticHash, List.length_cons, List.length_nil,
      Nat.zero_add, List.range, List.range.loop, List.map_cons, List.map_nil, interp, interpReq, interpReqs]
    simp only [hok, Except.map, Except.bind, asHashes, interp, Item.asHout, List.getElem?_cons_zero]
    cases hv : (t.den d).v with
    | error e => simp [interp, interpReq, Except.map, Except.bind, hv]
    | ok v => simp [interp, interpReq, Except.map, Except.bind, hv, Item.asVal]

/-- what gluing does to the term of a cached field -/
theorem glue_cache {l : Bag} {s : Nat} {x : String} {t : BTerm} (h : Glue l (.node (.cache s) [.inp x]) t) :
    ∃ t', t = .node (.cache s) [t'] ∧ Glue l (.inp x) t' := by
  cases h with
  | @node _ _ ts' hlen hz =>
    match ts', hlen with
    | [t'], _ =>
      exact ⟨t', rfl, hz (.inp x, t') (by simp)⟩

/-- **Node level: a cache layer is hash-transparent.**  Connect a well-formed bag `l` with a bag `r` in which the field `x` is
a cache edge over the input of the same name (what `CacheToStorage._prepare_container` builds for every cached name).  If `l`
has the field `x` computing `tl`, the connected bag computes `cache(tl)` under `x`, whose node hash is the node hash of `tl`
and whose cache-free value is the value of `tl`: inserting the layer changes no key. -/
theorem node_cache_layer_transparent {l r : Bag} (h : Sep l r) (hs : SingleIncoming (connected l r).edges)
    (x : String) (s : Nat) (hr : ∀ t0, r.Field x t0 → t0 = .node (.cache s) [.inp x]) (hrx : x ∈ names r.outputs)
    (tl : BTerm) (hl : l.Field x tl) (t : BTerm) (hf : (connected l r).Field x t) (d : DenCfg) :
    t = .node (.cache s) [tl] ∧ (t.den d).h.map (·.1) = (tl.den d).h.map (·.1) ∧
    (∀ hh, (tl.den d).h = .ok hh → (t.den d).v = (tl.den d).v) := by
  have hsl : SingleIncoming l.edges := h.wl.single
  have hnd := h.wl.outNames
  rcases (connected_field h hs x t).1 hf with ⟨t0, hr0, hg⟩ | ⟨hp, _⟩
  · rw [hr t0 hr0] at hg
    obtain ⟨t', rfl, hg'⟩ := glue_cache hg
    obtain ⟨o, ho, hox, hd⟩ := hl
    have : t' = tl := by
      cases hg' with
      | @fed _ o' _ ho' hon' hd' =>
        have : o' = o := hnd o' ho' o ho (hon'.trans hox.symm)
        subst this
        exact BDen.det hsl hd' hd
      | virt hx _ => exact absurd (List.mem_map.2 ⟨o, ho, hox⟩) hx
      | cut hx _ => exact absurd (List.mem_map.2 ⟨o, ho, hox⟩) hx
    subst this
    exact ⟨rfl, cache_node_den d s t'⟩
  · -- a name that is an output of the right bag is not passed on
    exfalso
    have hv : r.virt.mem x = false := by
      obtain ⟨o, ho, hox⟩ := List.mem_map.1 hrx
      have := h.wr.virtOut o ho
      rw [hox] at this
      exact this
    simp only [passes, hv, Bool.false_or, Bool.and_eq_true, Bool.not_eq_true', List.contains_eq_mem,
      decide_eq_false_iff_not] at hp
    exact hp.2 hrx

/-- **Node level: a name the cache layer does not cache is untouched**: the connected bag computes under `x` exactly the
term the left bag computes (the same node hash, the same value), through the pass-through clone. -/
theorem node_uncached_field_same {l r : Bag} (h : Sep l r) (hs : SingleIncoming (connected l r).edges)
    (x : String) (hrx : x ∉ names r.outputs) (t : BTerm) :
    (connected l r).Field x t ↔ passes l r x = true ∧ l.Field x t := by
  rw [connected_field h hs x t]
  constructor
  · rintro (⟨t0, ⟨o, ho, hox, _⟩, _⟩ | hp)
    · exact absurd (List.mem_map.2 ⟨o, ho, hox⟩) hrx
    · exact hp
  · exact Or.inr

/-- non-vacuity (a test): over the input `x = 1` the cached field has the hash and the value of the input -/
example : ((BTerm.node (.cache 0) [.inp "x"]).den { env := fun _ => some (.int 1) }).v = .ok (.int 1) ∧
    (((BTerm.node (.cache 0) [.inp "x"]).den { env := fun _ => some (.int 1) }).h.map (·.1)) = .ok (.leaf (.int 1)) := by
  have h := cache_node_den { env := fun _ => some (.int 1) } 0 (.inp "x")
  simp only [BTerm.den] at h ⊢
  exact ⟨h.2 _ rfl, h.1⟩

theorem cacheBag_output_names {s : Nat} {names : NameSet} {prev : List String} {b : Bag} (h : cacheBag s names prev = .ok b)
    (x : String) (hx : x ∈ CM.names b.outputs) : x ∈ cachedNames names prev := by
  obtain ⟨rfl, _⟩ := mkBag_ok h
  simp only [RawBag.core, addIdentities_eq, CM.names, List.map_append, List.mem_append] at hx
  rcases hx with hx | hx
  · have := names_nodesAt (cachedNames names prev).length (cachedNames names prev)
    simp only [cacheRaw, CM.names] at hx this
    rw [this] at hx; exact hx
  · have hcl := cloneEdges_names false (cacheRaw s (cachedNames names prev)).rule3 (cacheRaw s (cachedNames names prev)).next
    simp only [CM.names] at hcl
    rw [hcl] at hx
    obtain ⟨i, hi, rfl⟩ := List.mem_map.1 hx
    have hin : i ∈ (cacheRaw s (cachedNames names prev)).inputs := (List.mem_filter.1 hi).1
    have := names_nodesAt 0 (cachedNames names prev)
    simp only [cacheRaw, CM.names] at hin this
    rw [← this]
    exact List.mem_map.2 ⟨i, hin, rfl⟩

/-- **Inserting a cache layer changes no key and no value (node level, unconditional).**  Let `l` be the well-formed container of a
pipeline, `b` the container `CacheToRam / CacheToDisk(names)` builds on top of it and `c = connect_bags(l, b)`.  Every field of `c`
is a field of `l`, with the same node hash for every input and the same (cache-free) value. -/
theorem node_cache_layer_keeps_hashes {l b c : Bag} {s : Nat} {names : NameSet} (hl : l.WF)
    (hb : cacheBag s names (CM.names l.outputs) = .ok b) (hc : connectBags l b = .ok c)
    (x : String) (t : BTerm) (hf : c.Field x t) (d : DenCfg) :
    ∃ tl, l.Field x tl ∧ (t.den d).h.map (·.1) = (tl.den d).h.map (·.1) ∧
      (∀ hh, (tl.den d).h = .ok hh → (t.den d).v = (tl.den d).v) := by
  have hbw := cacheBag_wf hb
  obtain ⟨_, hfield, _, _⟩ := connect_step hl hbw hc
  rcases (hfield x t).1 hf with ⟨t0, h0, hg⟩ | ⟨_, hlf⟩
  · have hxc : x ∈ cachedNames names (CM.names l.outputs) := by
      obtain ⟨o, ho, hox, _⟩ := h0
      exact cacheBag_output_names hb x (List.mem_map.2 ⟨o, ho, hox⟩)
    obtain ⟨i, hfi⟩ := cacheBag_field hb x hxc
    have ht0 : t0 = .node (.cache (s + i)) [.inp x] := by
      obtain ⟨o₁, ho₁, hx₁, hd₁⟩ := h0
      obtain ⟨o₂, ho₂, hx₂, hd₂⟩ := hfi
      have : o₁ = o₂ := hbw.outNames o₁ ho₁ o₂ ho₂ (hx₁.trans hx₂.symm)
      subst this
      exact BDen.det hbw.single hd₁ hd₂
    rw [ht0] at hg
    obtain ⟨t', rfl, hg'⟩ := glue_cache hg
    have hxl : x ∈ CM.names l.outputs := (List.mem_filter.1 hxc).1
    cases hg' with
    | @fed _ o _ ho hon hd => exact ⟨t', ⟨o, ho, hon, hd⟩, cache_node_den d (s + i) t'⟩
    | virt hx _ => exact absurd hxl hx
    | cut hx _ => exact absurd hxl hx
  · exact ⟨t, hlf, rfl, fun _ _ => rfl⟩

end CM.C07
