/-
  C07 — Hashes depend only on pipeline structure and input (no spurious invalidation).
  Model-level theorems: Silent arguments do not reach the hash; hash-transparent edges report a parent's hash;
  hash-transparent layers (cache layers, pure inheritance) leave every field's term — hence its hash — unchanged;
  re-bracketing does not change the stack (C09).  Process restarts, PYTHONHASHSEED and pickling are runtime facts
  decided by the S-SEED correspondence.
-/
import CM.Proofs.StackLemmas
import CM.Model.Pipe
import CM.Model.Denote
namespace CM.C07
open CM

/-- **Silent.**  The hash of a function edge does not depend on the hashes of its Silent arguments. -/
theorem silent_invariant (silent : List Nat) : ∀ (hs hs' : List NHash), hs.length = hs'.length →
    (∀ i, silent.contains i = false → hs[i]? = hs'[i]?) → silence silent hs = silence silent hs' := by
  intro hs hs' hlen hagree
  simp only [silence]
  apply List.ext_getElem?
  intro i
  simp only [List.getElem?_map, List.getElem?_zipIdx]
  have := hagree i
  cases h1 : hs[i]? with
  | none =>
    have : hs'[i]? = none := by
      rw [List.getElem?_eq_none_iff] at h1 ⊢
      omega
    simp [this]
  | some a =>
    have hlt : i < hs'.length := by
      have := (List.getElem?_eq_some_iff.mp h1).1
      omega
    obtain ⟨b, hb⟩ : ∃ b, hs'[i]? = some b := ⟨hs'[i], by simp [hlt]⟩
    simp only [hb, Option.map_some, Nat.zero_add]
    by_cases hc : silent.contains i = true
    · have hm : i ∈ silent := by simpa using hc
      simp [hm]
    · have hc' : silent.contains i = false := by simpa using hc
      have := hagree i hc'
      rw [h1, hb] at this
      injection this with this
      simp [this]

theorem function_hash_silent (f : String) (kw : List String) (silent : List Nat) (hs hs' : List NHash)
    (hlen : hs.length = hs'.length) (h : ∀ i, silent.contains i = false → hs[i]? = hs'[i]?) :
    (EdgeK.function f kw silent).hashGraph hs = (EdgeK.function f kw silent).hashGraph hs' := by
  simp only [EdgeK.hashGraph, silent_invariant silent hs hs' hlen h]

/-- **Hash-transparent edges**: a cache edge, an identity, a hash barrier (statically) and CheckIds report the hash
of their (first) parent. -/
theorem transparent_edges (hs : List NHash) :
    (EdgeK.cache 0).hashGraph hs = .ok (hs.getD 0 default) ∧ EdgeK.identity.hashGraph hs = .ok (hs.getD 0 default) ∧
    EdgeK.barrier.hashGraph hs = .ok (hs.getD 0 default) ∧ EdgeK.checkIds.hashGraph hs = .ok (hs.getD 0 default) := by
  simp [EdgeK.hashGraph]

/-- at run time as well: the hash a cache edge computes is its parent's hash, whatever store it uses -/
theorem cache_edge_dynamic_hash (c : Ctx) (s : Nat) (h : NHash) (hp : c.ph 0 = .ok h) :
    interp c ((EdgeK.cache s).hashProg 1) = .ok (.hout h .none) := by
  simp [EdgeK.hashProg, staticHash, interp, interpReq, interpReqs, hp, asHashes, List.range, List.range.loop,
    Except.map]

/-- **Cache layers are transparent**: every field computes the same term after a cache layer -/
theorem cache_layer_transparent (s s' : Sig) (l : Layer) (hk : l.kind = .cache) (h : s.step l = .ok s') (n : String) :
    s'.field n = s.field n := by
  unfold Sig.step at h
  simp only [hk] at h
  injection h with h
  subst h
  simp only [Sig.field, Sig.get, lookupAssoc, List.find?_map, Function.comp_def]
  cases hf : List.find? (fun p => p.1 == n) s.out with
  | none => simp
  | some p => obtain ⟨m, e, o⟩ := p; cases e <;> simp

/-- **Re-bracketing / nesting chains** leaves the stack, hence every term and hash, unchanged -/
theorem bracketing_same (p q : Pipe) (h : p.flatten = q.flatten) : p.sig = q.sig := by
  simp [Pipe.sig, h]

/-- non-vacuity of `silent_invariant`: position 1 is Silent -/
example : silence [1] [.leaf (.int 1), .leaf (.int 2)] = silence [1] [.leaf (.int 1), .leaf (.int 99)] := by
  apply silent_invariant [1] _ _ rfl
  intro i hi
  match i with
  | 0 => rfl
  | 1 => simp at hi
  | n + 2 => rfl

end CM.C07
