/-
  C15 — Filter changes only ids; CheckIds only rejects foreign ids.
  Property theorems about CM.Model.Rel (tied to /repo by the S-REL correspondence).
-/
import CM.Proofs.CheckIds
import CM.Proofs.FilterBag
import CM.Model.Rel
namespace CM.C15
open CM

/-- Filter changes nothing but `ids`: the fields and the value of every field on every id (also ids that were
filtered out) are those of the unfiltered dataset. -/
theorem filter_other_fields_untouched (pred : String → Except Err Bool) (d : DS) :
    (filterDS pred d).fields = d.fields ∧ (filterDS pred d).value = d.value := ⟨rfl, rfl⟩

theorem filterM_spec (pred : String → Except Err Bool) (b : String → Bool) :
    ∀ ids : List String, (∀ i ∈ ids, pred i = .ok (b i)) → filterM pred ids = .ok (ids.filter b)
  | [], _ => rfl
  | x :: xs, h => by
    have hx := h x (List.mem_cons_self ..)
    have ih := filterM_spec pred b xs (fun i hi => h i (List.mem_cons_of_mem _ hi))
    simp only [filterM, hx, ih, bind, Except.bind, pure, Except.pure, List.filter_cons]

/-- The new ids are exactly the old ids whose entry satisfies the predicate, in the original order. -/
theorem filter_ids (pred : String → Except Err Bool) (b : String → Bool) (d : DS) (ids : List String)
    (hids : d.ids = .ok ids) (hp : ∀ i ∈ ids, pred i = .ok (b i)) :
    (filterDS pred d).ids = .ok (ids.filter b) := by
  simp only [filterDS, hids, Except.bind]
  exact filterM_spec pred b ids hp

/-- `keep` / `drop` are the membership special cases -/
theorem keep_ids (keep : List String) (d : DS) (ids : List String) (hids : d.ids = .ok ids) :
    (filterDS (fun i => .ok (keep.contains i)) d).ids = .ok (ids.filter keep.contains) :=
  filter_ids _ _ d ids hids (fun _ _ => rfl)

/-- Stacked filters compose to the conjunction of their predicates. -/
theorem stacked_filters (p q : String → Except Err Bool) (bp bq : String → Bool) (d : DS) (ids : List String)
    (hids : d.ids = .ok ids) (hp : ∀ i ∈ ids, p i = .ok (bp i)) (hq : ∀ i ∈ ids, q i = .ok (bq i)) :
    (filterDS q (filterDS p d)).ids = .ok (ids.filter fun i => bp i && bq i) := by
  have h1 := filter_ids p bp d ids hids hp
  have h2 := filter_ids q bq (filterDS p d) (ids.filter bp) h1
    (fun i hi => hq i (List.mem_filter.mp hi).1)
  rw [h2, List.filter_filter]
  congr 1
  apply List.filter_congr
  intro x _
  exact Bool.and_comm ..

/-- CheckIds: every field raises `KeyError` for an id outside the current ids ... -/
theorem checkids_rejects (d : DS) (ids : List String) (hids : d.ids = .ok ids) (f i : String)
    (hi : ids.contains i = false) : (checkIdsDS d).value f i = .error .keyError := by
  simp only [checkIdsDS, hids, hi]
  rfl

/-- ... and is otherwise transparent. -/
theorem checkids_transparent (d : DS) (ids : List String) (hids : d.ids = .ok ids) (f i : String)
    (hi : ids.contains i = true) : (checkIdsDS d).value f i = d.value f i ∧ (checkIdsDS d).ids = d.ids := by
  simp only [checkIdsDS, hids, hi]
  simp

/-- non-vacuity -/
example :
    let d : DS := { fields := ["id", "x"], ids := .ok ["b", "a", "c"], value := fun _ i => .ok (.str i) }
    (match (filterDS (fun i => .ok (i != "a")) d).ids with | .ok xs => xs == ["b", "c"] | .error _ => false) = true := by
  decide

/-! ## Node level: `CheckIds._connect` (`CM.Model.CheckIds`, compared with the real container in S-FACTORY) -/

/-- **Node level: CheckIds is value- and hash-transparent for the ids of the dataset.**  Let `b` be the container `CheckIds` builds
on a well-formed container `prev` with the single input `i` whose `ids` do not depend on the key.  Every field of `prev` computing `t`
is a field of `b` computing `t` with the key replaced by the guarded key; if the key is bound to `v` and `v` is among the ids, the new
term has the same node hash and the same value as `t` - for every field and every input. -/
theorem node_checkids_transparent {prev b : Bag} {i idsOut : BNode} (hw : prev.WF) (h : checkIdsBag prev = .ok b)
    (hpi : prev.inputs = [i]) (hids : byName prev.outputs "ids" = some idsOut) (tids : BTerm) (hdi : BDen prev idsOut tids)
    (hcl : tids.closed) (x : String) (t : BTerm) (hf : prev.Field x t) (d : DenCfg) (v : Val) (ids : List Val) (hh : NHash × Val)
    (hx : d.env i.name = some v) (hih : (tids.den d).h = .ok hh) (hiv : (tids.den d).v = .ok (.tup ids))
    (hin : ids.any (·.pyEq v) = true) :
    ∃ t', b.Field x t' ∧ DenEq (t'.den d) (t.den d) := by
  obtain ⟨o, ho, hox, hd⟩ := hf
  obtain ⟨_, _, _, _, _, _, _, _, hout⟩ := checkIdsBag_ok h
  refine ⟨_, ⟨o, hout o ho, hox, den_checkIds hw h hpi hids tids hdi hcl hd (hw.ids o (nodes3_out ho))⟩, ?_⟩
  apply den_subst
  obtain ⟨hg1, hg2⟩ := checkIds_guard_den d i.name tids v ids hh hx hih hiv
  refine ⟨?_, ?_⟩
  · rw [hg1]; simp [BTerm.den, hx, Except.map]
  · rw [hg2, hin]; simp [BTerm.den, hx]

/-- **Node level: a foreign id is rejected.**  In the guarded container the key of every field is the node `CheckIdsEdge(key, ids)`:
for a key that is not among the ids it raises `KeyError` (and has the hash of the key, so the rejection is never cached under another
key). -/
theorem node_checkids_rejects (d : DenCfg) (x : String) (tids : BTerm) (v : Val) (ids : List Val) (hh : NHash × Val)
    (hx : d.env x = some v) (hih : (tids.den d).h = .ok hh) (hiv : (tids.den d).v = .ok (.tup ids))
    (hout : ids.any (·.pyEq v) = false) :
    ((BTerm.node .checkIds [.inp x, tids]).den d).v = .error .keyError ∧
    ((BTerm.node .checkIds [.inp x, tids]).den d).h.map (·.1) = .ok (.leaf v) := by
  obtain ⟨hg1, hg2⟩ := checkIds_guard_den d x tids v ids hh hx hih hiv
  exact ⟨by rw [hg2, hout]; rfl, hg1⟩

/-- **Node level: Filter changes only the ids** (`CM.Model.FilterBag` = `Filter._prepare_container` + `DynamicConnectLayer._connect`,
compared with the real containers in S-FACTORY/filter).  For every well-formed previous container and whatever predicate graph the
filter edge `e` carries: the result is well-formed; every field other than the keys computes exactly the term it computed before -
the same value and the same node hash on every input; the keys are the filter edge applied to the previous keys; no name appears
or disappears. -/
theorem node_filter_changes_only_ids {l b c : Bag} {e : EdgeK} {keys : String} (hl : l.WF) (hb : filterBag e keys = .ok b)
    (he : e ≠ .identity) (hc : connectBags l b = .ok c) :
    c.WF ∧
    (∀ x, x ≠ keys → ∀ t, c.Field x t ↔ l.Field x t) ∧
    (∀ t, c.Field keys t ↔ ∃ tk, Glue l (.inp keys) tk ∧ t = .node e [tk]) ∧
    (∀ x, x ∈ names c.outputs ↔ x = keys ∨ x ∈ names l.outputs) :=
  filter_layer hl hb he hc

/-- non-vacuity (a test): the container of a filter exists and is well-formed -/
example : ∃ b, filterBag (.function "$filter" [] []) "ids" = .ok b ∧ b.wfB = true := ⟨_, rfl, by decide +kernel⟩

end CM.C15
