import CM.Model.Rel
namespace CM.C15
theorem placeholder : True := trivial
end CM.C15
