/-
  C15 — Filter changes only ids; CheckIds only rejects foreign ids.
  Property theorems about CM.Model.Rel (tied to /repo by the S-REL correspondence).
-/
import CM.Model.Rel
namespace CM.C15
open CM

/-- Filter changes nothing but `ids`: the fields and the value of every field on every id (also ids that were
filtered out) are those of the unfiltered dataset. -/
theorem filter_other_fields_untouched (pred : String → Except Err Bool) (d : DS) :
    (filterDS pred d).fields = d.fields ∧ (filterDS pred d).value = d.value := ⟨rfl, rfl⟩

theorem filterM_spec (pred : String → Except Err Bool) (b : String → Bool) :
    ∀ ids : List String, (∀ i ∈ ids, pred i = .ok (b i)) → filterM pred ids = .ok (ids.filter b)
  | [], _ => rfl
  | x :: xs, h => by
    have hx := h x (List.mem_cons_self ..)
    have ih := filterM_spec pred b xs (fun i hi => h i (List.mem_cons_of_mem _ hi))
    simp only [filterM, hx, ih, bind, Except.bind, pure, Except.pure, List.filter_cons]

/-- The new ids are exactly the old ids whose entry satisfies the predicate, in the original order. -/
theorem filter_ids (pred : String → Except Err Bool) (b : String → Bool) (d : DS) (ids : List String)
    (hids : d.ids = .ok ids) (hp : ∀ i ∈ ids, pred i = .ok (b i)) :
    (filterDS pred d).ids = .ok (ids.filter b) := by
  simp only [filterDS, hids, Except.bind]
  exact filterM_spec pred b ids hp

/-- `keep` / `drop` are the membership special cases -/
theorem keep_ids (keep : List String) (d : DS) (ids : List String) (hids : d.ids = .ok ids) :
    (filterDS (fun i => .ok (keep.contains i)) d).ids = .ok (ids.filter keep.contains) :=
  filter_ids _ _ d ids hids (fun _ _ => rfl)

/-- Stacked filters compose to the conjunction of their predicates. -/
theorem stacked_filters (p q : String → Except Err Bool) (bp bq : String → Bool) (d : DS) (ids : List String)
    (hids : d.ids = .ok ids) (hp : ∀ i ∈ ids, p i = .ok (bp i)) (hq : ∀ i ∈ ids, q i = .ok (bq i)) :
    (filterDS q (filterDS p d)).ids = .ok (ids.filter fun i => bp i && bq i) := by
  have h1 := filter_ids p bp d ids hids hp
  have h2 := filter_ids q bq (filterDS p d) (ids.filter bp) h1
    (fun i hi => hq i (List.mem_filter.mp hi).1)
  rw [h2, List.filter_filter]
  congr 1
  apply List.filter_congr
  intro x _
  exact Bool.and_comm ..

/-- CheckIds: every field raises `KeyError` for an id outside the current ids ... -/
theorem checkids_rejects (d : DS) (ids : List String) (hids : d.ids = .ok ids) (f i : String)
    (hi : ids.contains i = false) : (checkIdsDS d).value f i = .error .keyError := by
  simp only [checkIdsDS, hids, hi]
  rfl

/-- ... and is otherwise transparent. -/
theorem checkids_transparent (d : DS) (ids : List String) (hids : d.ids = .ok ids) (f i : String)
    (hi : ids.contains i = true) : (checkIdsDS d).value f i = d.value f i ∧ (checkIdsDS d).ids = d.ids := by
  simp only [checkIdsDS, hids, hi]
  simp

/-- non-vacuity -/
example :
    let d : DS := { fields := ["id", "x"], ids := .ok ["b", "a", "c"], value := fun _ i => .ok (.str i) }
    (match (filterDS (fun i => .ok (i != "a")) d).ids with | .ok xs => xs == ["b", "c"] | .error _ => false) = true := by
  decide

end CM.C15
