/-
  C16 (continued) — the container `Join` builds, node by node (CM.Model.JoinBag, compared with the real `JoinContainer` by S-FACTORY/join).
-/
import CM.Model.JoinBag
import CM.Proofs.FactoryChain
import CM.Proofs.JoinBag
import CM.Props.C16
namespace CM.C16
open CM

/-- **Node level: the container of `Join`.**  If `JoinContainer(left, right, on, ...)` is built: both sides have one input (`lk`, `rk`) and an `ids`
output; the key fields are pairwise different and none is a key name; the container has ONE input, the new `id`, handed on unchanged as the output `id`;
the mapping is `JoinMapping(left ids, right ids)`; the old key of each side is computed from (new id, memoised mapping) and reaches that side's input
through a hash barrier - so every field of either side is evaluated at the old key the mapping assigns; the new `ids` come from the mapping alone;
all edges of both sides are kept. -/
theorem node_join_container {l r0 b : Bag} {on : List String} {how : String} {cached : Bool} (h : joinBag l r0 on how cached = .ok b) :
    ∃ lk rk kl kr, l.inputs = [lk] ∧ (r0.shift l.next).inputs = [rk] ∧
      byName l.outputs "ids" = some kl ∧ byName (r0.shift l.next).outputs "ids" = some kr ∧
      hasDupStr on = false ∧ (∀ x ∈ on, x ≠ lk.name ∧ x ≠ rk.name) ∧
      b.inputs = [⟨(r0.shift l.next).next + 3, "id"⟩] ∧
      identityEdge ⟨(r0.shift l.next).next + 3, "id"⟩ ⟨(r0.shift l.next).next + 4, "id"⟩ ∈ b.edges ∧
      (⟨(r0.shift l.next).next + 4, "id"⟩ : BNode) ∈ b.outputs ∧
      ({ edge := joinMappingK, ins := [kl, kr], out := ⟨(r0.shift l.next).next, "$mapping"⟩ } : BEdge) ∈ b.edges ∧
      ({ edge := joinIdK 0, ins := [⟨(r0.shift l.next).next + 3, "id"⟩, ⟨(r0.shift l.next).next + 2, "$mapping"⟩],
         out := ⟨(r0.shift l.next).next + 5, "$aux"⟩ } : BEdge) ∈ b.edges ∧
      ({ edge := .barrier, ins := [⟨(r0.shift l.next).next + 5, "$aux"⟩], out := lk } : BEdge) ∈ b.edges ∧
      ({ edge := joinIdK 1, ins := [⟨(r0.shift l.next).next + 3, "id"⟩, ⟨(r0.shift l.next).next + 2, "$mapping"⟩],
         out := ⟨(r0.shift l.next).next + 6, "$aux"⟩ } : BEdge) ∈ b.edges ∧
      ({ edge := .barrier, ins := [⟨(r0.shift l.next).next + 6, "$aux"⟩], out := rk } : BEdge) ∈ b.edges ∧
      ({ edge := joinIdsK how, ins := [⟨(r0.shift l.next).next + 2, "$mapping"⟩], out := ⟨(r0.shift l.next).next + 7, "ids"⟩ } : BEdge) ∈ b.edges ∧
      (⟨(r0.shift l.next).next + 7, "ids"⟩ : BNode) ∈ b.outputs ∧
      (∀ e ∈ l.edges, e ∈ b.edges) ∧ (∀ e ∈ (r0.shift l.next).edges, e ∈ b.edges) := by
  unfold joinBag at h
  simp only [] at h
  split at h
  · cases h
  · rename_i hdup
    split at h
    · rename_i lk rk hl hr
      split at h
      · rename_i kl kr hkl hkr
        split at h
        · cases h
        · split at h
          · cases h
          · rename_i hon
            split at h
            · cases h
            · split at h
              · cases h
              · obtain ⟨hin, hed⟩ := mkBag_inputs_edges h
                have hout := mkBag_outputs h
                refine ⟨lk, rk, kl, kr, hl, hr, hkl, hkr, by simpa using hdup, ?_, hin, hed _ (by simp), hout _ (by simp), hed _ (by simp),
                  hed _ (by simp), hed _ (by simp), hed _ (by simp), hed _ (by simp), hed _ (by simp), hout _ (by simp),
                  fun e he => hed e (by simp [he]),
                  fun e he => hed e (by simp only [List.mem_append]; repeat (first | exact Or.inr he | apply Or.inl))⟩
                intro x hx
                have := hon
                simp only [List.any_eq_true, not_exists, not_and, Bool.or_eq_true, beq_iff_eq, not_or] at this
                exact this x hx
      · cases h
    · cases h


/-- **Node level: every key field of a `Join` is a `SwitchBranch` over both sides.**  For every field `x` the join is made on, the container has an output
`x` produced by `SwitchBranch(new id, mapping, left x, right x)`, `left x` / `right x` being the outputs of that name of the two sides. -/
theorem node_join_key_fields {l r0 b : Bag} {on : List String} {how : String} {cached : Bool} (h : joinBag l r0 on how cached = .ok b) :
    ∀ x ∈ on, ∃ loc a c, loc ∈ b.outputs ∧ loc.name = x ∧ a ∈ l.outputs ∧ a.name = x ∧ c ∈ (r0.shift l.next).outputs ∧ c.name = x ∧
      ({ edge := .switchBranch, ins := [⟨(r0.shift l.next).next + 3, "id"⟩, ⟨(r0.shift l.next).next + 2, "$mapping"⟩, a, c], out := loc } : BEdge) ∈ b.edges := by
  intro x hx
  unfold joinBag at h
  simp only [] at h
  split at h
  · cases h
  · split at h
    · rename_i lk rk hl hr
      split at h
      · rename_i kl kr hkl hkr
        split at h
        · cases h
        · split at h
          · cases h
          · split at h
            · cases h
            · rename_i hsub
              split at h
              · cases h
              · obtain ⟨_, hed⟩ := mkBag_inputs_edges h
                have hout := mkBag_outputs h
                -- `x` is a field of both sides
                have hin : x ∈ (names (l.outputs.filter fun o => o.name != "ids" && o.name != lk.name)).filter
                    (names ((r0.shift l.next).outputs.filter fun o => o.name != "ids" && o.name != rk.name)).contains := by
                  have := hsub
                  simp only [List.any_eq_true, not_exists, not_and, Bool.not_eq_true', Bool.not_eq_false'] at this
                  have hc := this x hx
                  simpa using hc
                obtain ⟨hxl, hxr⟩ := List.mem_filter.1 hin
                obtain ⟨a, ha⟩ := byName_exists hxl
                obtain ⟨c, hc⟩ := byName_exists (List.contains_iff_mem.1 hxr)
                obtain ⟨i, hi⟩ := zip_range_mem on x hx
                have ha' := byName_some ha
                have hc' := byName_some hc
                refine ⟨⟨(r0.shift l.next).next + 8 + i, x⟩, a, c, hout _ ?_, rfl, (List.mem_filter.1 ha'.1).1, ha'.2,
                  (List.mem_filter.1 hc'.1).1, hc'.2, hed _ ?_⟩
                · simp only [List.mem_append, List.mem_map]
                  exact Or.inl (Or.inl (Or.inr ⟨(i, x), hi, rfl⟩))
                · simp only [List.mem_append, List.mem_filterMap, List.mem_map]
                  refine Or.inl (Or.inl (Or.inr ⟨⟨(r0.shift l.next).next + 8 + i, x⟩, ⟨(i, x), hi, rfl⟩, ?_⟩))
                  simp only [ha, hc]
      · cases h
    · cases h

/-- **Node level: in an inner or left join the fields of the left side alone are handed on untouched.**  When the left side can never be missing
(`how` is neither `right` nor `outer`), every output of the left container that is neither `ids`, nor its key, nor a field of the right side is an
output of the joined container itself - the very node, no guard in between. -/
theorem node_join_left_fields_pass {l r0 b : Bag} {on : List String} {how : String} {cached : Bool} (h : joinBag l r0 on how cached = .ok b)
    (hg : (how == "right" || how == "outer") = false) :
    ∃ lk, l.inputs = [lk] ∧ ∀ o ∈ l.outputs, o.name ≠ "ids" → o.name ≠ lk.name →
      (∀ c ∈ (r0.shift l.next).outputs, c.name ≠ o.name) → o ∈ b.outputs := by
  unfold joinBag at h
  simp only [] at h
  split at h
  · cases h
  · split at h
    · rename_i lk rk hl hr
      refine ⟨lk, hl, ?_⟩
      split at h
      · split at h
        · cases h
        · split at h
          · cases h
          · split at h
            · cases h
            · split at h
              · cases h
              · have hout := mkBag_outputs h
                intro o ho h1 h2 hno
                refine hout o ?_
                simp only [hg, Bool.false_eq_true, if_false, List.mem_append]
                refine Or.inl (Or.inr ?_)
                refine List.mem_filter.2 ⟨List.mem_filter.2 ⟨ho, by simp [h1, h2]⟩, ?_⟩
                have : o.name ∉ names ((r0.shift l.next).outputs.filter fun o => o.name != "ids" && o.name != rk.name) := by
                  intro hm
                  obtain ⟨c, hc, hcn⟩ := List.mem_map.1 hm
                  exact hno c (List.mem_filter.1 hc).1 hcn
                have hni : o.name ∉ (names (l.outputs.filter fun o => o.name != "ids" && o.name != lk.name)).filter
                    (names ((r0.shift l.next).outputs.filter fun o => o.name != "ids" && o.name != rk.name)).contains := by
                  intro hm
                  exact this (List.contains_iff_mem.1 (List.mem_filter.1 hm).2)
                rw [Bool.not_eq_true', ← Bool.not_eq_true]
                intro hc
                exact hni (List.contains_iff_mem.1 hc)
      · cases h
    · cases h


/-- two datasets as containers: input `id`, outputs `id`, `ids`, the key field `k` and one own field -/
def exSide (own : String) : Bag :=
  { inputs := [⟨0, "id"⟩], outputs := [⟨0, "id"⟩, ⟨1, "ids"⟩, ⟨2, "k"⟩, ⟨3, own⟩],
    edges := [{ edge := .constant (.str "the ids"), ins := [], out := ⟨1, "ids"⟩ }, { edge := .function "D.k" [] [], ins := [⟨0, "id"⟩], out := ⟨2, "k"⟩ },
              { edge := .function "D.own" [] [], ins := [⟨0, "id"⟩], out := ⟨3, own⟩ }],
    virt := .fin [], persistent := ["ids"], optional := [], ctx := .no, next := 4 }

/-- non-vacuity (a test): an outer join of the two on `k` builds a container with the outputs `id`, `ids`, `k`, `x`, `z` and one input; joining on
the key name, on a repeated field or with a conflicting field is rejected -/
example :
    (match joinBag (exSide "x") (exSide "z") ["k"] "outer" false with
     | .ok b => b.outputs.map (·.name) == ["id", "ids", "k", "x", "z"] && b.inputs.length == 1 && b.wfB
     | .error _ => false) = true ∧
    (match joinBag (exSide "x") (exSide "z") ["k", "id"] "inner" false with | .error .value => true | _ => false) = true ∧
    (match joinBag (exSide "x") (exSide "z") ["k", "k"] "inner" false with | .error .duplicates => true | _ => false) = true ∧
    (match joinBag (exSide "x") (exSide "x") ["k"] "inner" true with | .error .value => true | _ => false) = true := by
  decide +kernel

end CM.C16
