/-
  C16 — Join implements inner/left/right/outer relational joins on key fields.
  Property theorems about CM.Model.Rel (tied to /repo by the S-REL correspondence).
-/
import CM.Proofs.RelLemmas
namespace CM.C16
open CM

/-- the key of entry `i` of dataset `d`: `to_key` of the tuple of its key-field values -/
def keyOf (d : DS) (on : List String) (i : String) : Except Err String :=
  (on.mapM fun f => d.value f i).bind joinKey

/-- **Keys are unique on each side.**  When the key table of one side is built without error, it lists every id
of that side exactly once, with its key, and no key occurs twice; hence two entries of one side with the same key
tuple (or a non-injective `to_key`) make the join raise. -/
theorem side_keys_spec (d : DS) (on : List String) :
    ∀ (ids : List String) (m : List (String × String)), sideKeys d on ids = .ok m →
      m.map (·.2) = ids ∧ (m.map (·.1)).Nodup ∧ ∀ k i, (k, i) ∈ m → keyOf d on i = .ok k
  | [], m, h => by
    simp only [sideKeys] at h; injection h with h; subst h; simp
  | i :: rest, m, h => by
    simp only [sideKeys, bind, Except.bind] at h
    cases hv : on.mapM (fun f => d.value f i) with
    | error e => simp [hv] at h
    | ok vals =>
      cases hk : joinKey vals with
      | error e => simp [hv, hk] at h
      | ok k =>
        cases hr : sideKeys d on rest with
        | error e => simp [hv, hk, hr] at h
        | ok m' =>
          simp only [hv, hk, hr] at h
          obtain ⟨ih1, ih2, ih3⟩ := side_keys_spec d on rest m' hr
          split at h
          · simp at h
          · next hany =>
            simp only [pure, Except.pure] at h
            injection h with h; subst h
            refine ⟨by simp [ih1], ?_, ?_⟩
            · simp only [List.map_cons, List.nodup_cons]
              refine ⟨?_, ih2⟩
              intro hmem
              apply hany
              simp only [List.mem_map] at hmem
              obtain ⟨p, hp, hpk⟩ := hmem
              simp only [List.any_eq_true]
              exact ⟨p, hp, by simp [hpk]⟩
            · intro k' i' hm
              cases hm with
              | head => simp [keyOf, hv, Except.bind, hk]
              | tail _ hm => exact ih3 k' i' hm

/-- duplicate keys on one side are rejected -/
theorem duplicates_rejected (d : DS) (on : List String) (ids : List String) (i j k : String)
    (hi : i ∈ ids) (hj : j ∈ ids) (hne : i ≠ j)
    (hki : keyOf d on i = .ok k) (hkj : keyOf d on j = .ok k) :
    ∀ m, sideKeys d on ids ≠ .ok m := by
  intro m hm
  obtain ⟨h1, h2, h3⟩ := side_keys_spec d on ids m hm
  -- both ids occur in the table, with the same key: the keys would not be pairwise different
  have memi : ∃ k', (k', i) ∈ m := by
    have : i ∈ m.map (·.2) := by rw [h1]; exact hi
    simp only [List.mem_map] at this
    obtain ⟨p, hp, rfl⟩ := this
    exact ⟨p.1, hp⟩
  have memj : ∃ k', (k', j) ∈ m := by
    have : j ∈ m.map (·.2) := by rw [h1]; exact hj
    simp only [List.mem_map] at this
    obtain ⟨p, hp, rfl⟩ := this
    exact ⟨p.1, hp⟩
  obtain ⟨ki, hmi⟩ := memi
  obtain ⟨kj, hmj⟩ := memj
  have e1 := h3 ki i hmi; rw [hki] at e1; injection e1 with e1; subst e1
  have e2 := h3 kj j hmj; rw [hkj] at e2; injection e2 with e2; subst e2
  -- two different pairs with the same first component contradict Nodup of the keys
  have : ∀ (l : List (String × String)), (l.map (·.1)).Nodup → (k, i) ∈ l → (k, j) ∈ l → i = j := by
    intro l
    induction l with
    | nil => intro _ h; cases h
    | cons p ps ih =>
      intro hn ha hb
      simp only [List.map_cons, List.nodup_cons] at hn
      cases ha with
      | head =>
        cases hb with
        | head => rfl
        | tail _ hb => exact absurd (List.mem_map.mpr ⟨(k, j), hb, rfl⟩) hn.1
      | tail _ ha =>
        cases hb with
        | head => exact absurd (List.mem_map.mpr ⟨(k, i), ha, rfl⟩) hn.1
        | tail _ hb => exact ih hn.2 ha hb
  exact hne (this m h2 hmi hmj)

/-- **Ids by mode**: the ids of the join are exactly the keys selected by the mode. -/
theorem ids_by_mode (l r : DS) (on : List String) (how : JoinMode) (j : DS) (h : joinDS l r on how = .ok j)
    (m : JoinMap) (hm : joinMapping l r on = .ok m) :
    ∃ ids, j.ids = .ok ids ∧ ∀ k, k ∈ ids ↔
      (k ∈ m.inner.map (·.1) ∨ ((how = .left ∨ how = .outer) ∧ k ∈ m.leftOnly.map (·.1)) ∨
       ((how = .right ∨ how = .outer) ∧ k ∈ m.rightOnly.map (·.1))) := by
  simp only [joinDS] at h
  split at h
  · simp at h
  · injection h with h
    subst h
    refine ⟨_, by simp only [hm, Except.map]; rfl, ?_⟩
    intro k
    rw [mem_sortDedup]
    cases how <;> simp

/-- a key of neither side is rejected by every data field -/
theorem unknown_key_rejected (l r : DS) (on : List String) (how : JoinMode) (j : DS) (h : joinDS l r on how = .ok j)
    (m : JoinMap) (hm : joinMapping l r on = .ok m) (key f : String) (hf : (f == "id") = false)
    (h1 : m.inner.find? (·.1 == key) = none) (h2 : m.leftOnly.find? (·.1 == key) = none)
    (h3 : m.rightOnly.find? (·.1 == key) = none) : j.value f key = .error .keyError := by
  simp only [joinDS] at h
  split at h
  · simp at h
  · injection h with h
    subst h
    simp only [hf, hm, h1, h2, h3, Bool.false_eq_true, ↓reduceIte]
    split
    · rfl
    · split <;> rfl

/-- the inner part of the mapping is exactly the keys present on both sides, with the two matching ids -/
theorem mapping_inner (l r : DS) (on : List String) (m : JoinMap) (hm : joinMapping l r on = .ok m)
    (lids rids : List String) (hl : l.ids = .ok lids) (hr : r.ids = .ok rids)
    (lk rk : List (String × String)) (hlk : sideKeys l on lids = .ok lk) (hrk : sideKeys r on rids = .ok rk) :
    ∀ k i jd, (k, i, jd) ∈ m.inner ↔ ((k, i) ∈ lk ∧ rk.find? (·.1 == k) = some (k, jd)) := by
  simp only [joinMapping, hl, hr, bind, Except.bind, hlk, hrk, pure, Except.pure] at hm
  injection hm with hm
  subst hm
  intro k i jd
  simp only [List.mem_filterMap]
  constructor
  · rintro ⟨⟨k', i'⟩, hmem, heq⟩
    cases hf : rk.find? (fun p => p.1 == k') with
    | none => simp [hf] at heq
    | some p =>
      simp only [hf, Option.map_some, Option.some.injEq, Prod.mk.injEq] at heq
      obtain ⟨rfl, rfl, rfl⟩ := heq
      have := List.find?_some hf
      simp only [beq_iff_eq] at this
      refine ⟨hmem, ?_⟩
      rw [hf]; congr 1
      exact Prod.ext this rfl
  · rintro ⟨hmem, hf⟩
    exact ⟨(k, i), hmem, by simp [hf]⟩

/-- non-vacuity: an outer join of {a1:u, a2:v} and {b1:v, b2:w} -/
example :
    let l : DS := { fields := ["id", "k", "x"], ids := .ok ["a1", "a2"],
                    value := fun f i => .ok (if f == "k" then .str (if i == "a1" then "u" else "v") else .app "L.x" [.str i] [] []) }
    let r : DS := { fields := ["id", "k", "z"], ids := .ok ["b1", "b2"],
                    value := fun f i => .ok (if f == "k" then .str (if i == "b1" then "v" else "w") else .app "R.z" [.str i] [] []) }
    (match joinDS l r ["k"] .outer with
      | .ok j => (match j.ids with | .ok ids => ids == ["u", "v", "w"] | _ => false) &&
                 (match j.value "z" "u" with | .ok .none => true | _ => false) &&
                 (match j.value "z" "v" with | .ok (.app _ [.str "b1"] _ _) => true | _ => false)
      | .error _ => false) = true := by decide +kernel

end CM.C16
