import CM.Model.Rel
namespace CM.C16
theorem placeholder : True := trivial
end CM.C16
