/-
  C18 — Optional fields vanish quietly; required ones fail loudly and by name.
  Property theorems about CM.Model.Stack (tied to /repo by the S-BAG / S-OPT correspondence).
-/
import CM.Proofs.StackLemmas
namespace CM.C18
open CM

/-- The pipeline is unusable (`DependencyError`) exactly when some exposed field lacks an input and is not
quietly droppable: it is not optional, or one of the inputs it lacks is not an optional node of the layer
that asks for it. -/
theorem dependency_error_iff (s : Sig) :
    s.dependencyError = true ↔
      ∃ n ms o, (n, Entry.broken ms, o) ∈ s.out ∧
        (o = false ∨ ∃ m ∈ ms, ((s.leafOpt.find? fun p => p.1 == m).map (·.2)).getD false = false) := by
  simp only [Sig.dependencyError, List.any_eq_true]
  constructor
  · rintro ⟨⟨n, e, o⟩, hmem, hq⟩
    cases e with
    | term t => simp [Sig.quiet] at hq
    | broken ms =>
      refine ⟨n, ms, o, hmem, ?_⟩
      simp only [Sig.quiet, Bool.not_eq_true', Bool.and_eq_false_iff, List.all_eq_false] at hq
      rcases hq with h | ⟨m, hm, hf⟩
      · exact .inl h
      · exact .inr ⟨m, hm, by simpa using hf⟩
  · rintro ⟨n, ms, o, hmem, h⟩
    refine ⟨(n, .broken ms, o), hmem, ?_⟩
    simp only [Sig.quiet, Bool.not_eq_true', Bool.and_eq_false_iff, List.all_eq_false]
    rcases h with h | ⟨m, hm, hf⟩
    · exact .inl h
    · exact .inr ⟨m, hm, by simpa using hf⟩

/-- a field left out quietly is not listed by `dir`, and asking for it raises `FieldError` -/
theorem left_out_field_error (s : Sig) (n : String) (ms : List (Nat × String)) (o : Bool)
    (h : s.get n = some (.broken ms, o)) : s.field n = .fieldError := by
  simp [Sig.field, h]

/-- optional dependants follow: a function one of whose arguments lacks inputs lacks (at least) the same inputs -/
theorem broken_propagates (f : Option String) (es : List Entry) (ms : List (Nat × String)) (m : Nat × String)
    (he : Entry.broken ms ∈ es) (hm : m ∈ ms) : ∃ ms', combine f es = .broken ms' ∧ m ∈ ms' := by
  have hmem : m ∈ es.flatMap Entry.missing := by
    simp only [List.mem_flatMap]
    exact ⟨_, he, hm⟩
  have hne : (es.flatMap Entry.missing).isEmpty = false := by
    cases h : es.flatMap Entry.missing with
    | nil => rw [h] at hmem; simp at hmem
    | cons a as => rfl
  refine ⟨(es.flatMap Entry.missing).eraseDups, ?_, List.mem_eraseDups.mpr hmem⟩
  simp [combine, hne]

/-- a cache layer over all names marks every field it passes on as optional and changes nothing else -/
theorem cache_layers_mark_optional (s s' : Sig) (l : Layer) (hk : l.kind = .cache) (hn : l.cacheNames = none)
    (h : s.step l = .ok s') : s'.out = s.out.map fun (n, e, _) => (n, e, true) := by
  unfold Sig.step at h
  simp only [hk, hn] at h
  injection h with h
  subst h
  simp

/-- non-vacuity: `c(a)` is optional and `a` is missing: dropped quietly; with `c` required: DependencyError -/
example :
    let top (opt : List String) : Layer :=
      { index := 1, kind := .transform, defs := [("c", .fn "h" ["a"]), ("d", .fn "k" ["b"])], params := [],
        opt := opt, persistent := [], inherit := .fin [], inheritIsList := true, cacheNames := none }
    let src : Layer := { index := 0, kind := .transform, defs := [("b", .fn "g" ["x"])], params := [],
                         opt := [], persistent := [], inherit := .fin [], inheritIsList := true, cacheNames := none }
    ((match sigOf [src, top ["c"]] with | .ok s => !s.dependencyError && (s.get "d").isSome | .error _ => false) &&
     (match sigOf [src, top []] with | .ok s => s.dependencyError | .error _ => false)) = true := by decide +kernel

end CM.C18
