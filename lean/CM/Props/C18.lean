/-
  C18 — Optional fields vanish quietly; required ones fail loudly and by name.
  Property theorems about CM.Model.Stack (tied to /repo by the S-BAG / S-OPT correspondence) and, at the node level,
  about CM.Model.Bag: `GraphCompiler._validate_optionals` / `find_dependencies` (tied to /repo by S-NODE).
-/
import CM.Proofs.StackLemmas
import CM.Proofs.BagDeps
import CM.Proofs.DetectOpt
import CM.Proofs.BagTerm
namespace CM.C18
open CM

/-- The pipeline is unusable (`DependencyError`) exactly when some exposed field lacks an input and is not
quietly droppable: it is not optional, or one of the inputs it lacks is not an optional node of the layer
that asks for it. -/
theorem dependency_error_iff (s : Sig) :
    s.dependencyError = true ↔
      ∃ n ms o, (n, Entry.broken ms, o) ∈ s.out ∧
        (o = false ∨ ∃ m ∈ ms, ((s.leafOpt.find? fun p => p.1 == m).map (·.2)).getD false = false) := by
  simp only [Sig.dependencyError, List.any_eq_true]
  constructor
  · rintro ⟨⟨n, e, o⟩, hmem, hq⟩
    cases e with
    | term t => simp [Sig.quiet] at hq
    | broken ms =>
      refine ⟨n, ms, o, hmem, ?_⟩
      simp only [Sig.quiet, Bool.not_eq_true', Bool.and_eq_false_iff, List.all_eq_false] at hq
      rcases hq with h | ⟨m, hm, hf⟩
      · exact .inl h
      · exact .inr ⟨m, hm, by simpa using hf⟩
  · rintro ⟨n, ms, o, hmem, h⟩
    refine ⟨(n, .broken ms, o), hmem, ?_⟩
    simp only [Sig.quiet, Bool.not_eq_true', Bool.and_eq_false_iff, List.all_eq_false]
    rcases h with h | ⟨m, hm, hf⟩
    · exact .inl h
    · exact .inr ⟨m, hm, by simpa using hf⟩

/-- a field left out quietly is not listed by `dir`, and asking for it raises `FieldError` -/
theorem left_out_field_error (s : Sig) (n : String) (ms : List (Nat × String)) (o : Bool)
    (h : s.get n = some (.broken ms, o)) : s.field n = .fieldError := by
  simp [Sig.field, h]

/-- optional dependants follow: a function one of whose arguments lacks inputs lacks (at least) the same inputs -/
theorem broken_propagates (f : Option String) (es : List Entry) (ms : List (Nat × String)) (m : Nat × String)
    (he : Entry.broken ms ∈ es) (hm : m ∈ ms) : ∃ ms', combine f es = .broken ms' ∧ m ∈ ms' := by
  have hmem : m ∈ es.flatMap Entry.missing := by
    simp only [List.mem_flatMap]
    exact ⟨_, he, hm⟩
  have hne : (es.flatMap Entry.missing).isEmpty = false := by
    cases h : es.flatMap Entry.missing with
    | nil => rw [h] at hmem; simp at hmem
    | cons a as => rfl
  refine ⟨(es.flatMap Entry.missing).eraseDups, ?_, List.mem_eraseDups.mpr hmem⟩
  simp [combine, hne]

/-- a cache layer over all names marks every field it passes on as optional and changes nothing else -/
theorem cache_layers_mark_optional (s s' : Sig) (l : Layer) (hk : l.kind = .cache) (hn : l.cacheNames = none)
    (h : s.step l = .ok s') : s'.out = s.out.map fun (n, e, _) => (n, e, true) := by
  unfold Sig.step at h
  simp only [hk, hn] at h
  injection h with h
  subst h
  simp

/-- non-vacuity: `c(a)` is optional and `a` is missing: dropped quietly; with `c` required: DependencyError -/
example :
    let top (opt : List String) : Layer :=
      { index := 1, kind := .transform, defs := [("c", .fn "h" ["a"]), ("d", .fn "k" ["b"])], params := [],
        opt := opt, persistent := [], inherit := .fin [], inheritIsList := true, cacheNames := none }
    let src : Layer := { index := 0, kind := .transform, defs := [("b", .fn "g" ["x"])], params := [],
                         opt := [], persistent := [], inherit := .fin [], inheritIsList := true, cacheNames := none }
    ((match sigOf [src, top ["c"]] with | .ok s => !s.dependencyError && (s.get "d").isSome | .error _ => false) &&
     (match sigOf [src, top []] with | .ok s => s.dependencyError | .error _ => false)) = true := by decide +kernel

/-! ## Node level: `GraphCompiler` (`find_dependencies`, `_validate_optionals`, `get_node`) -/


theorem validate_struct {b : Bag} {r : Except CompileErr (List BNode)} (h : b.validate = r)
    (hr : r ≠ .error .duplicates ∧ r ≠ .error .graph ∧ r ≠ .error .key) :
    hasDupStr (names b.inputs) = false ∧ hasDupStr (names b.outputs) = false ∧ multipleIncoming b.edges = false ∧
    validateOutputs b (depsTable b.edges) b.outputs = r := by
  unfold Bag.validate at h
  split at h
  · exact absurd h.symm hr.1
  · rename_i h1
    split at h
    · exact absurd h.symm hr.2.1
    · rename_i h2
      split at h
      · exact absurd h.symm hr.2.2
      · simp only [Bool.or_eq_true, not_or, Bool.not_eq_true] at h1
        exact ⟨h1.1, h1.2, by simpa using h2, h⟩

/-- **Node level, which fields survive.**  When `GraphCompiler` accepts a bag, the available outputs are exactly the
outputs all of whose leaves are inputs of the bag (no unreachable input), and every output that was left out is optional
and lacks only optional nodes. -/
theorem node_validate_ok (b : Bag) (hac : acyclicB b.edges = true) (avail : List BNode) (h : b.validate = .ok avail) :
    (∀ o, o ∈ avail ↔ o ∈ b.outputs ∧ ∀ d, ¬ Unreach b o d) ∧
    (∀ o ∈ b.outputs, o ∉ avail → Quiet b o ∧ ∃ d, Unreach b o d) := by
  obtain ⟨_, _, hmi, hv⟩ := validate_struct h ⟨by simp, by simp, by simp⟩
  have hs := multipleIncoming_false hmi
  obtain ⟨h1, h2⟩ := validateOutputs_ok b hs hac b.outputs avail hv
  have hmem : ∀ o, o ∈ avail ↔ o ∈ b.outputs ∧ ∀ d, ¬ Unreach b o d := by
    intro o
    rw [h1, List.mem_filter, missingOf_nil b hs hac]
  refine ⟨hmem, fun o ho hna => ?_⟩
  have hex : ∃ d, Unreach b o d := by
    refine Classical.byContradiction fun hne => hna ((hmem o).2 ⟨ho, fun d hd => hne ⟨d, hd⟩⟩)
  exact ⟨h2 o ho hex, hex⟩

/-- **Node level, when the pipeline is unusable.**  On a structurally sound bag `GraphCompiler` raises `DependencyError`
exactly when some output has an unreachable input and is not quietly droppable: it is not optional, or one of the nodes it
lacks is not optional. -/
theorem node_dependency_error_iff (b : Bag) (hac : acyclicB b.edges = true)
    (hd : hasDupStr (names b.inputs) = false ∧ hasDupStr (names b.outputs) = false)
    (hmi : multipleIncoming b.edges = false)
    (hk : (b.inputs ++ b.outputs).any (fun n => !(edgeNodes b.edges).contains n) = false) :
    b.validate = .error .dependency ↔ ∃ o ∈ b.outputs, (∃ d, Unreach b o d) ∧ ¬ Quiet b o := by
  have hs := multipleIncoming_false hmi
  rw [← validateOutputs_dependency b hs hac b.outputs]
  unfold Bag.validate
  rw [hk]
  simp [hd.1, hd.2, hmi]

/-- a field that was left out is reported as discarded (`FieldError`), never answered -/
theorem node_left_out_field_error (b : Bag) (avail : List BNode) (o : BNode) (ho : o ∈ b.outputs)
    (hsub : ∀ n ∈ avail, n ∈ b.outputs) (hnd : hasDupStr (names b.outputs) = false)
    (hv : b.virt.mem o.name = false) (hna : o ∉ avail) : b.getNode avail o.name = .discarded := by
  have hinj := names_inj_of_nodup (hasDupStr_false hnd)
  have hnone : byName avail o.name = none := by
    unfold byName
    rw [List.find?_eq_none]
    intro n hn hname
    have : n = o := hinj n (hsub n hn) o ho (by simpa using hname)
    exact hna (this ▸ hn)
  unfold Bag.getNode
  rw [hnone]
  simp only [hv, Bool.false_eq_true, if_false]
  have : (names b.outputs).contains o.name = true := by
    simp only [names, List.contains_eq_mem, List.mem_map, decide_eq_true_eq]
    exact ⟨o, ho, rfl⟩
  rw [this]
  rfl

/-- leaving a field out changes no other field: an available output is resolved to its own node -/
theorem node_available_field (b : Bag) (avail : List BNode) (o : BNode) (ho : o ∈ avail)
    (hsub : ∀ n ∈ avail, n ∈ b.outputs) (hnd : hasDupStr (names b.outputs) = false) :
    b.getNode avail o.name = .node o := by
  have hinj := names_inj_of_nodup (hasDupStr_false hnd)
  have : byName avail o.name = some o := by
    unfold byName
    cases hf : avail.find? (·.name == o.name) with
    | none =>
      have := List.find?_eq_none.1 hf o ho
      simp at this
    | some n =>
      have hn := List.mem_of_find?_eq_some hf
      have hname : n.name = o.name := by simpa using List.find?_some hf
      rw [hinj n (hsub n hn) o (hsub o ho) hname]
  unfold Bag.getNode
  rw [this]

/-- **The tie to what the field computes**: for an output with an incoming edge, in a bag with single incoming edges whose
inputs are leaves, the nodes `GraphCompiler` reports as unreachable inputs are exactly the `missing` leaves of the term
the output denotes (`BDen`, the semantics the gluing theorem of C02 is about). -/
theorem node_unreachable_are_missing (b : Bag) (hs : SingleIncoming b.edges)
    (hleaf : ∀ n ∈ b.inputs, ∀ e ∈ b.edges, e.out ≠ n) (o : BNode) (ho : ∃ e ∈ b.edges, e.out = o) (t : BTerm)
    (hden : BDen b o t) (x : String) : x ∈ t.missingNames ↔ ∃ d, d.name = x ∧ Unreach b o d := by
  rw [hden.missing_iff hs hleaf]
  exact exists_congr fun d => and_congr_right fun _ => (unreach_iff_missAt ho d).symm

/-- hence: an output survives validation exactly when its term mentions no missing input -/
theorem node_available_iff_term_complete (b : Bag) (hac : acyclicB b.edges = true) (avail : List BNode)
    (h : b.validate = .ok avail) (hleaf : ∀ n ∈ b.inputs, ∀ e ∈ b.edges, e.out ≠ n)
    (o : BNode) (ho : o ∈ b.outputs) (hoe : ∃ e ∈ b.edges, e.out = o) (t : BTerm) (hden : BDen b o t) :
    o ∈ avail ↔ t.missingNames = [] := by
  obtain ⟨_, _, hmi, _⟩ := validate_struct h ⟨by simp, by simp, by simp⟩
  have hs := multipleIncoming_false hmi
  rw [(node_validate_ok b hac avail h).1 o]
  constructor
  · rintro ⟨_, hno⟩
    cases hm : t.missingNames with
    | nil => rfl
    | cons x xs =>
      obtain ⟨d, _, hd⟩ := (node_unreachable_are_missing b hs hleaf o hoe t hden x).1 (by rw [hm]; exact List.mem_cons_self ..)
      exact absurd hd (hno d)
  · intro hnil
    refine ⟨ho, fun d hd => ?_⟩
    have := (node_unreachable_are_missing b hs hleaf o hoe t hden d.name).2 ⟨d, rfl, hd⟩
    rw [hnil] at this
    cases this

/-- non-vacuity (a test, not a theorem): `a = f(x)`, `c = h(m)` with `m` not an input.  With `c` and `m` optional the
compiler keeps `a` and drops `c`; with `c` required, or `m` required, it raises `DependencyError`. -/
def exBag (optional : List BNode) : Bag :=
  let x : BNode := ⟨0, "x"⟩; let a : BNode := ⟨1, "a"⟩; let m : BNode := ⟨2, "m"⟩; let c : BNode := ⟨3, "c"⟩
  { inputs := [x], outputs := [a, c],
    edges := [{ edge := .function "f" [] [], ins := [x], out := a }, { edge := .function "h" [] [], ins := [m], out := c }],
    virt := .empty, persistent := [], optional := optional, next := 4 }

example :
    (match (exBag [⟨3, "c"⟩, ⟨2, "m"⟩]).validate with | .ok av => av == [⟨1, "a"⟩] | .error _ => false) = true ∧
    (match (exBag [⟨2, "m"⟩]).validate with | .error .dependency => true | _ => false) = true ∧
    (match (exBag [⟨3, "c"⟩]).validate with | .error .dependency => true | _ => false) = true ∧
    acyclicB (exBag []).edges = true ∧
    ((exBag []).term 5 ⟨3, "c"⟩).map BTerm.missingNames = some ["m"] := by
  refine ⟨by decide +kernel, by decide +kernel, by decide +kernel, by decide +kernel, by decide +kernel⟩
/-! ## Node level: which nodes of a layer are optional (`detect_optionals`, containers/reversible.py) -/

/-- **What `detect_optionals` marks**, for every container with single incoming edges and no cycle: the outputs carrying an
`@optional` name; the inputs that have dependants among the visited nodes, all of which are such optional outputs; the backward
inputs and outputs.  This is the per-layer half of "every upstream input it cannot reach is needed only by optional fields of
the layer that asks for it": the other half is `node_validate_ok`. -/
theorem node_detect_optionals (optNames : List String) (inputs outputs backIn backOut : List BNode) (es : List BEdge)
    (opt : List BNode) (hs : SingleIncoming es) (hac : acyclicB es = true)
    (h : detectOptionals optNames inputs outputs backIn backOut es = some opt) (n : BNode) :
    n ∈ opt ↔ (∃ x ∈ optNames, byName outputs x = some n) ∨
      (n ∈ inputs ∧ (∃ u, UserOf es outputs u n) ∧ ∀ u, UserOf es outputs u n → ∃ x ∈ optNames, byName outputs x = some u) ∨
      n ∈ backIn ∨ n ∈ backOut :=
  detectOptionals_spec optNames inputs outputs backIn backOut es opt hs hac h n

/-- an input with a dependant that is not an optional output - a private parameter, a required field, the pass-through of an
inherited name - is required: if it cannot be reached the pipeline fails loudly -/
theorem node_required_user_blocks (optNames : List String) (inputs outputs backIn backOut : List BNode) (es : List BEdge)
    (opt : List BNode) (hs : SingleIncoming es) (hac : acyclicB es = true)
    (h : detectOptionals optNames inputs outputs backIn backOut es = some opt) (i u : BNode)
    (hu : UserOf es outputs u i) (hno : ∀ x ∈ optNames, byName outputs x ≠ some u)
    (hi : ∀ x ∈ optNames, byName outputs x ≠ some i) (hbi : i ∉ backIn) (hbo : i ∉ backOut) : i ∉ opt :=
  required_user_blocks optNames inputs outputs backIn backOut es opt hs hac h i u hu hno hi hbi hbo

/-- non-vacuity (a test): `x(a)` optional and `y(b, _p)`, `_p(a)` required: `a` is used by the parameter, `b` by the required
field: only the output `x` is optional; with `_p` reading nothing and `y` optional as well, `a` and `b` become optional -/
example :
    let a : BNode := ⟨0, "a"⟩; let b : BNode := ⟨1, "b"⟩; let p : BNode := ⟨2, "_p"⟩; let x : BNode := ⟨3, "x"⟩; let y : BNode := ⟨4, "y"⟩
    let es (pa : List BNode) : List BEdge := [{ edge := .function "p" [] [], ins := pa, out := p },
      { edge := .function "x" [] [], ins := [a], out := x }, { edge := .function "y" [] [], ins := [b, p], out := y }]
    (detectOptionals ["x"] [a, b] [x, y] [] [] (es [a])).map (·.map (·.name)) = some ["x"] ∧
    (detectOptionals ["x", "y"] [a, b] [x, y] [] [] (es [])).map (·.map (·.name)) = some ["x", "y", "a", "b"] := by
  decide +kernel

end CM.C18
