/-
  C06 — Static graph hashes of dataset-wide layers identify the function they key.
  Per-edge injectivity of `_hash_graph` (CM.Model.Graph `EdgeK.hashGraph`): the static hash of an edge determines
  the function symbol, the keyword names, the routing table of a Merge switch, the constant, and the static hashes
  of the (non-Silent) inputs.  The composition over whole graphs (`decodeG_hashGraph`) is in progress (DESIGN.md);
  until it lands whole sub-pipelines are decided by the S-GHASH correspondence and oracle.
-/
import CM.Model.VM
namespace CM.C06
open CM

/-- a function edge: the function, the keyword names and the (silenced) input hashes are all in the hash -/
theorem function_hash_inj (f g : String) (k l : List String) (s t : List Nat) (hs ht : List NHash)
    (h : (EdgeK.function f k s).hashGraph hs = (EdgeK.function g l t).hashGraph ht) :
    f = g ∧ k = l ∧ silence s hs = silence t ht := by
  simp only [EdgeK.hashGraph] at h
  injection h with h
  injection h with h1 h2 h3
  exact ⟨h1, h3, h2⟩

/-- **Merge routing is part of the static hash** (the repair of F1): two switches with different routing tables have
different static hashes, whatever their branches hash to. -/
theorem switch_routing_in_hash (t₁ t₂ : List (Val × Nat)) (hs₁ hs₂ : List NHash)
    (h : (EdgeK.switch t₁).hashGraph hs₁ = (EdgeK.switch t₂).hashGraph hs₂) :
    switchTableVal t₁ = switchTableVal t₂ ∧ hs₁ = hs₂ := by
  simp only [EdgeK.hashGraph] at h
  injection h with h
  injection h with _ h2
  injection h2 with h3 h4
  injection h3 with h3
  exact ⟨h3, h4⟩

/-- the routing table value determines the table (ids and the dataset each is routed to) -/
theorem switch_table_inj : ∀ (t₁ t₂ : List (Val × Nat)), switchTableVal t₁ = switchTableVal t₂ → t₁ = t₂ := by
  intro t₁ t₂ h
  simp only [switchTableVal] at h
  injection h with h
  induction t₁ generalizing t₂ with
  | nil => cases t₂ <;> simp_all
  | cons a as ih =>
    cases t₂ with
    | nil => simp at h
    | cons b bs =>
      simp only [List.map_cons, List.cons.injEq] at h
      obtain ⟨h1, h2⟩ := h
      injection h1 with h1
      simp only [List.cons.injEq, and_true] at h1
      obtain ⟨h3, h4⟩ := h1
      injection h4 with h4
      have : a = b := Prod.ext h3 (by exact_mod_cast h4)
      rw [this, ih bs h2]

/-- constants, products and the marker edges of Join -/
theorem constant_hash_inj (v w : Val) (hs ht : List NHash)
    (h : (EdgeK.constant v).hashGraph hs = (EdgeK.constant w).hashGraph ht) : v = w := by
  simp only [EdgeK.hashGraph] at h
  injection h with h
  injection h

theorem switch_missing_side_in_hash (i j : Nat) (hs ht : List NHash)
    (h : (EdgeK.switchMissing i).hashGraph hs = (EdgeK.switchMissing j).hashGraph ht) : i = j ∧ hs = ht := by
  simp only [EdgeK.hashGraph] at h
  injection h with h
  injection h with _ h2
  injection h2 with h3 h4
  injection h3 with h3
  injection h3 with h3
  exact ⟨by exact_mod_cast h3, h4⟩

/-- edges of different kinds never share a static hash when their markers differ -/
theorem switch_vs_branch (t : List (Val × Nat)) (hs ht : List NHash) :
    (EdgeK.switch t).hashGraph hs ≠ EdgeK.switchBranch.hashGraph ht := by
  simp [EdgeK.hashGraph]

/-- an impure edge has no static hash at all -/
theorem impure_raises (inner : EdgeK) (hs : List NHash) : (EdgeK.impure inner).hashGraph hs = .error .hashError := by
  simp [EdgeK.hashGraph]

/-- non-vacuity / the witness of F1 on the repaired model: same branches, other routing, other hash -/
example : (EdgeK.switch [(.str "1", 0), (.str "2", 0), (.str "3", 1)]).hashGraph [placeholder, placeholder, placeholder] ≠
    (EdgeK.switch [(.str "1", 0), (.str "2", 1), (.str "3", 1)]).hashGraph [placeholder, placeholder, placeholder] := by
  intro h
  have := (switch_routing_in_hash _ _ _ _ h).1
  have := switch_table_inj _ _ this
  simp at this

end CM.C06
