/-
  C06 — Static graph hashes of dataset-wide layers identify the function they key.
  Per-edge injectivity of `_hash_graph` (CM.Model.Graph `EdgeK.hashGraph`): the static hash of an edge determines
  the function symbol, the keyword names, the routing table of a Merge switch, the constant, and the static hashes
  of the (non-Silent) inputs.

  Over whole graphs: `evalG x h` evaluates a static hash `h` on the entry id `x` (placeholder ↦ `x`, function
  applications, tuples, the routing of `SwitchEdge` through the table written into the hash, the two Join markers).
  `static_hash_determines_value`: on a plain graph (no Silent arguments, no CheckIds, no impure edge — those have no
  static hash at all) whose inputs are bound to `x`, wherever a node has a value it is `evalG x` of its static hash.
  Hence `equal_static_hash_equal_function`: two sub-pipelines with equal static hashes return the same value for
  every id on which both return a value — what Filter / GroupBy / Split / Join key by the static hash is a function
  of the hash.  (Partial: ids on which one of the two raises are not covered by the theorem; the routing table,
  whose keys decide that for Merge, is in the hash by `switch_routing_in_hash`.)
-/
import CM.Proofs.Check
namespace CM.C06
open CM

/-- **A static hash determines the value at every id** (where there is one). -/
theorem static_hash_determines_value (g : Graph) (d : DenCfg) (x : Val) (pl : PlainG g d x) (n : Nat) (h : NHash) (v : Val)
    (hh : hg g n = .ok h) (hv : (den g d n).v = .ok v) : evalG x h = some v :=
  static_value g d x pl n h v hh hv

/-- **Equal static graph hashes, equal functions of the entry id.** -/
theorem equal_static_hash_equal_function_partial (g g' : Graph) (h : NHash) (h1 : g.hashGraph = .ok h) (h2 : g'.hashGraph = .ok h)
    (x : Val) (d d' : DenCfg) (pl : PlainG g d x) (pl' : PlainG g' d' x) (v v' : Val)
    (hv : (den g d g.output).v = .ok v) (hv' : (den g' d' g'.output).v = .ok v') : v = v' :=
  CM.equal_static_hash_equal_function g g' h h1 h2 x d d' pl pl' v v' hv hv'

/-- a function edge: the function, the keyword names and the (silenced) input hashes are all in the hash -/
theorem function_hash_inj (f g : String) (k l : List String) (s t : List Nat) (hs ht : List NHash)
    (h : (EdgeK.function f k s).hashGraph hs = (EdgeK.function g l t).hashGraph ht) :
    f = g ∧ k = l ∧ silence s hs = silence t ht := by
  simp only [EdgeK.hashGraph] at h
  injection h with h
  injection h with h1 h2 h3
  exact ⟨h1, h3, h2⟩

/-- **Merge routing is part of the static hash** (the repair of F1): two switches with different routing tables have
different static hashes, whatever their branches hash to. -/
theorem switch_routing_in_hash (t₁ t₂ : List (Val × Nat)) (hs₁ hs₂ : List NHash)
    (h : (EdgeK.switch t₁).hashGraph hs₁ = (EdgeK.switch t₂).hashGraph hs₂) :
    switchTableVal t₁ = switchTableVal t₂ ∧ hs₁ = hs₂ := by
  simp only [EdgeK.hashGraph] at h
  injection h with h
  injection h with _ h2
  injection h2 with h3 h4
  injection h3 with h3
  exact ⟨h3, h4⟩

/-- the routing table value determines the table (ids and the dataset each is routed to) -/
theorem switch_table_inj : ∀ (t₁ t₂ : List (Val × Nat)), switchTableVal t₁ = switchTableVal t₂ → t₁ = t₂ := by
  intro t₁ t₂ h
  simp only [switchTableVal] at h
  injection h with h
  induction t₁ generalizing t₂ with
  | nil => cases t₂ <;> simp_all
  | cons a as ih =>
    cases t₂ with
    | nil => simp at h
    | cons b bs =>
      simp only [List.map_cons, List.cons.injEq] at h
      obtain ⟨h1, h2⟩ := h
      injection h1 with h1
      simp only [List.cons.injEq, and_true] at h1
      obtain ⟨h3, h4⟩ := h1
      injection h4 with h4
      have : a = b := Prod.ext h3 (by exact_mod_cast h4)
      rw [this, ih bs h2]

/-- constants, products and the marker edges of Join -/
theorem constant_hash_inj (v w : Val) (hs ht : List NHash)
    (h : (EdgeK.constant v).hashGraph hs = (EdgeK.constant w).hashGraph ht) : v = w := by
  simp only [EdgeK.hashGraph] at h
  injection h with h
  injection h

theorem switch_missing_side_in_hash (i j : Nat) (hs ht : List NHash)
    (h : (EdgeK.switchMissing i).hashGraph hs = (EdgeK.switchMissing j).hashGraph ht) : i = j ∧ hs = ht := by
  simp only [EdgeK.hashGraph] at h
  injection h with h
  injection h with _ h2
  injection h2 with h3 h4
  injection h3 with h3
  injection h3 with h3
  exact ⟨by exact_mod_cast h3, h4⟩

/-- edges of different kinds never share a static hash when their markers differ -/
theorem switch_vs_branch (t : List (Val × Nat)) (hs ht : List NHash) :
    (EdgeK.switch t).hashGraph hs ≠ EdgeK.switchBranch.hashGraph ht := by
  simp [EdgeK.hashGraph]

/-- an impure edge has no static hash at all -/
theorem impure_raises (inner : EdgeK) (hs : List NHash) : (EdgeK.impure inner).hashGraph hs = .error .hashError := by
  simp [EdgeK.hashGraph]

/-- non-vacuity / the witness of F1 on the repaired model: same branches, other routing, other hash -/
example : (EdgeK.switch [(.str "1", 0), (.str "2", 0), (.str "3", 1)]).hashGraph [placeholder, placeholder, placeholder] ≠
    (EdgeK.switch [(.str "1", 0), (.str "2", 1), (.str "3", 1)]).hashGraph [placeholder, placeholder, placeholder] := by
  intro h
  have := (switch_routing_in_hash _ _ _ _ h).1
  have := switch_table_inj _ _ this
  simp at this

/-! ### non-vacuity of the global theorem: `Merge(A, B) >> p(id)` with two routings -/

def mergeGraph (t : List (Val × Nat)) : Graph :=
  { nodes := [⟨"id", none, []⟩,
              ⟨"a", some (.function "fa" [] []), [0]⟩, ⟨"b", some (.function "fb" [] []), [0]⟩,
              ⟨"m", some (.switch t), [0, 1, 2]⟩, ⟨"p", some (.function "p" [] []), [3]⟩],
    inputs := [0], output := 4 }

def cfgOf (x : Val) : DenCfg := { env := fun s => if s = "id" then some x else none }

def routeA : List (Val × Nat) := [(.str "1", 0), (.str "2", 0), (.str "3", 1)]
def routeB : List (Val × Nat) := [(.str "1", 0), (.str "2", 1), (.str "3", 1)]

example : PlainG (mergeGraph routeA) (cfgOf (.str "2")) (.str "2") := plainGB_sound _ _ _ (by decide +kernel)

/-- the hash evaluates to the routed branch: id "2" goes to `fa` under one routing and to `fb` under the other -/
example : ((mergeGraph routeA).hashGraph.toOption.bind (evalG (.str "2")) == some (.app "p" [.app "fa" [.str "2"] [] []] [] [])) = true ∧
    ((mergeGraph routeB).hashGraph.toOption.bind (evalG (.str "2")) == some (.app "p" [.app "fb" [.str "2"] [] []] [] [])) = true := by
  decide +kernel

end CM.C06
