import CM.Model.Value
import CM.Model.Graph
import CM.Model.VM
import CM.Model.Denote
