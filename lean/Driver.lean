/-
  cmdriver — runs the executable model on JSON lines (one request per line, one answer per line).
  Used by the correspondence suites of the Python harness.
-/
import CM.Driver.Ops
open Lean CM

partial def loop (h : IO.FS.Stream) (out : IO.FS.Stream) : IO Unit := do
  let line ← h.getLine
  if line.isEmpty then return ()
  let line := line.trimAscii.toString
  if line.isEmpty then loop h out else
  let ans : Json :=
    match Json.parse line with
    | .error e => Json.mkObj [("error", .str s!"parse: {e}")]
    | .ok j =>
      match CM.dispatch j with
      | .ok r => r
      | .error e => Json.mkObj [("error", .str e)]
  out.putStrLn ans.compress
  loop h out

def main : IO Unit := do
  let i ← IO.getStdin
  let o ← IO.getStdout
  loop i o
  o.flush
