"""S-CACHE: histories of calls, clears, rebuilds, pipeline variants and injected failures on pipelines with
CacheToRam / CacheToDisk layers, built through the public API.  Every call is compared with
 * the Lean VM model run on the graph *extracted from the real compiled function* (correspondence),
 * the cache-free reference value (C04 oracle),
 * the memoisation oracle (C08): a repeated (field, key) behind an unbounded RAM cache or a disk cache executes
   nothing upstream; a bounded RAM cache holds <= size entries per field and hits on its `size` most recent keys."""
import copy, json, os, random, shutil, tempfile
from . import driver, paths, refsem
from .pipeline import Builder
from .extract import Extractor, Unsupported
from .codec import canon, val_to_json, exc_name
from .sym import SymWorld

KEYS = ['a', 'b', 'c', 'd', -1, -2, 0, 1, 2, True, False,     # True == 1, False == 0: distinct disk digests, equal RAM keys (F3)
        {'app': ['$path', ['a'], [], []]}, {'app': ['$bytes', ['a'], [], []]}, 'a']     # a path / bytes that spell the id 'a': other keys


def gen_pipeline(rng, n_roots=1):
    # `p`: a field no transform produces or consumes: it reaches every cache layer by inheritance only
    src = {'k': 'source', 'cls': 'S0', 'ids': ['a', 'b', 'c'], 'fields': {'a': {'args': ['i']}, 'b': {'args': ['i']}, 'p': {'args': ['i']}},
           'params': {}, 'cargs': {}, 'defaults': {}}
    t1 = {'k': 'transform', 'cls': 'T1', 'fields': {'c': {'args': rng.choice([['a'], ['a', 'b'], ['b', 'a']])},
                                                     'd': {'args': rng.choice([['a'], ['b'], ['c']]) if rng.random() < 0.6 else ['a']}},
          'params': {}, 'cargs': {}, 'defaults': {}, 'inherit': True}
    if rng.random() < 0.25:
        t1['fields']['c']['byvalue'] = True
    for n, spec in t1['fields'].items():
        spec['f'] = 'T1.' + n      # explicit symbolic names: a variant class may reuse the same functions

    def cache():
        r = rng.random()
        names = rng.choice([None, None, ['c'], ['c', 'd'], ['a', 'c', 'd'], ['p', 'c', 'd']])
        if r < 0.3:
            return {'k': 'ram', 'names': names, 'size': None}
        if r < 0.65:
            return {'k': 'ram', 'names': names, 'size': rng.choice([1, 2, 3])}
        return {'k': 'disk', 'names': names or ['c', 'd'], 'root': rng.randrange(n_roots)}
    layers = [src, t1, cache()]
    if rng.random() < 0.5:
        layers.append({'k': 'transform', 'cls': 'T2', 'fields': {'e': {'args': rng.choice([['c'], ['c', 'd'], ['d']])}},
                       'params': {}, 'cargs': {}, 'defaults': {}, 'inherit': True})
        if rng.random() < 0.6:
            c2 = cache()
            if c2['names'] is not None:
                c2['names'] = c2['names'] + ['e']
            layers.append(c2)
    return {'k': 'chain', 'flavour': 'chain', 'layers': layers}


def variant_of(rng, desc):
    """another pipeline on the same storage: one function, or one wiring, is different"""
    d = copy.deepcopy(desc)
    t1 = d['layers'][1]
    t1['cls'] = f'T1v{rng.randrange(10 ** 9)}'
    if rng.random() < 0.5:
        t1['fields']['c']['f'] = 'T1.c#v2'
    else:
        t1['fields']['c']['args'] = list(reversed(t1['fields']['c']['args'])) if len(t1['fields']['c']['args']) > 1 else ['b']
    return d


def gen_history(rng, desc, n=None):
    fields = ['c', 'd', 'a', 'p'] + (['e'] if len(desc['layers']) > 3 else [])
    n = n or rng.randint(5, 25)
    keys = rng.sample(KEYS, rng.randint(2, 5))
    ops = []
    objs = 1
    for _ in range(n):
        r = rng.random()
        if r < 0.78:
            op = {'op': 'call', 'obj': rng.randrange(objs), 'field': rng.choice(fields), 'key': rng.choice(keys)}
            if rng.random() < 0.08:
                op['fail_at'] = [rng.randrange(3)]
            ops.append(op)
        elif r < 0.86:
            ops.append({'op': 'clear', 'obj': rng.randrange(objs)})
        elif r < 0.94:
            ops.append({'op': 'rebuild', 'obj': rng.randrange(objs)})
            objs += 1
        else:
            ops.append({'op': 'variant', 'obj': rng.randrange(objs)})
            objs += 1
    return ops


def bracketed(desc, shape):
    """the same layers in another bracketing (C09: same pipeline): `shape` 0 flat, 1 `src >> (rest)`, 2 `src >> ((t, cache) >> rest)`,
    3 `(src >> t) >> (rest)`; the caches of nested chains still memoise what reaches them through the layers before"""
    ls = desc['layers']

    def ch(xs):
        # a chain that does not start with a callable layer (a cache layer first) is a LazyChain
        lazy = xs[0]['k'] not in ('source', 'transform', 'chain')
        return xs[0] if len(xs) == 1 else {'k': 'chain', 'flavour': 'lazy' if lazy else 'chain', 'layers': list(xs)}
    if shape == 1 and len(ls) >= 3:
        return ch([ls[0], ch(ls[1:])])
    if shape == 2 and len(ls) >= 4:
        return ch([ls[0], ch([ch(ls[1:3]), ch(ls[3:])])])
    if shape == 3 and len(ls) >= 4:
        return ch([ch(ls[:2]), ch(ls[2:])])
    return desc


class Pipe:
    def __init__(self, builder, desc, shape=0):
        self.builder, self.desc = builder, desc
        builder.ram_layers = []
        self.layer = builder.layer(bracketed(desc, shape))
        self.ram_layers = list(builder.ram_layers)
        self.fns = {}

    def fn(self, field):
        if field not in self.fns:
            self.fns[field] = self.layer._compile(field)
        return self.fns[field]


def cache_free_value(desc, field, key):
    """C04 oracle: the same pipeline without cache layers, symbolically"""
    res = refsem.resolve(desc)
    exp = refsem.expect_field(res, field)
    from .real_vm import json_to_py
    return refsem.term_value(exp['term'], {'id': json_to_py(key)})


def run_case(seed, scratch):
    rng = random.Random(seed)
    roots = [tempfile.mkdtemp(dir=scratch)]
    desc = gen_pipeline(rng)
    ops = gen_history(rng, desc)
    world = SymWorld()
    b = Builder(world, roots=roots)
    shape = rng.choice([0, 0, 1, 2, 3])
    objs = [Pipe(b, desc, shape)]
    ex = Extractor(world)
    inputs = set()
    steps, real_out, meta = [], [], []
    problems = []
    # memoisation bookkeeping: per cache store of the *last* cache layer covering a field
    for op in ops:
        o = objs[op['obj']]
        if op['op'] == 'clear':
            for l in o.ram_layers:
                l._clear()
            # every RAM store of that pipeline object is cleared in the model as well
            for i, (st, size) in enumerate(ex.stores):
                from connectome.cache import MemoryCache
                if isinstance(st, MemoryCache) and any(st in l._cache_instances for l in o.ram_layers):
                    steps.append({'t': 'clear', 'store': i})
                    real_out.append({'ok': None})
                    meta.append(op)
            continue
        if op['op'] in ('rebuild', 'variant'):
            d = o.desc if op['op'] == 'rebuild' else variant_of(rng, o.desc)
            objs.append(Pipe(b, d, shape))
            continue
        try:
            f = o.fn(op['field'])
        except Exception as e:
            problems.append({'kind': 'compile', 'msg': exc_name(e), 'op': op, 'obj_desc': o.desc})
            continue
        try:
            out, ins = ex.graph(f)
        except Unsupported as e:
            return None
        inputs |= set(ins)
        from .real_vm import json_to_py
        mark = world.mark()
        world.fail_at = {world.serial + k for k in op.get('fail_at', [])}
        try:
            v = f(json_to_py(op['key']))
            r = {'ok': val_to_json(v, world)}
        except Exception as e:
            r = {'err': exc_name(e)}
        world.fail_at = set()
        log = [[fn, [val_to_json(x, world) for x in pos], [k for k, _ in kw], [val_to_json(x, world) for _, x in kw]]
               for fn, pos, kw in world.since(mark)]
        st = {'t': 'call', 'out': out, 'env': {'id': op['key']}}
        if op.get('fail_at'):
            st['fail_at'] = op['fail_at']
        steps.append(st)
        sizes = {}
        for l in o.ram_layers:
            for c in l._cache_instances:
                sizes[id(c)] = (len(c._cache), c.size)
        real_out.append({'r': r, 'log': log, 'sizes': sizes})
        meta.append(dict(op, desc_id=id(o.desc), obj_desc=o.desc))
    case = ex.case(sorted(inputs))
    # disk stores compare keys exactly (pickled bytes), RAM stores with Python ==
    from connectome.cache import DiskCache
    case['stores'] = ['disk' if isinstance(s, DiskCache) else size for s, size in ex.stores]
    return {'desc': desc, 'ops': ops, 'case': case, 'steps': steps, 'real': real_out, 'meta': meta, 'problems': problems}


def covering_cache(d, field):
    """-> (index p, function-name prefixes of the layers before p) of the last unbounded RAM / disk cache layer of the flat pipeline `d`
    that covers every name the request for `field` reads across it, or None.  Behind such a layer a repeated call runs nothing of the
    layers before it, wherever in the pipeline (and in whatever bracketing) the layer sits."""
    ls = d['layers']
    need = {field}
    for p in range(len(ls) - 1, 0, -1):
        l = ls[p]
        if l['k'] == 'transform':
            new = set()
            for n in need:
                new |= set(l['fields'][n]['args']) if n in l.get('fields', {}) else {n}
            need = new
            if any(a.startswith('_') for a in need):
                return None
        elif l['k'] in ('ram', 'disk'):
            if (l['k'] == 'disk' or l.get('size') is None) and (l.get('names') is None or need <= set(l['names'])):
                before = []
                for q in ls[:p]:
                    for n, spec in q.get('fields', {}).items():
                        before.append(spec.get('f') or f'{q["cls"]}.{n}')
                return p, l['k'], set(before)
        else:
            return None
    return None


def check_case(rec, ans):
    """-> (model diffs, C04 oracle failures, C08 oracle failures)"""
    model_diffs, c04, c08 = [], [], []
    seen_mid = {}      # (obj or desc json, field, p) -> keys returned through the covering cache layer at position p
    if 'error' in ans:
        return [['driver', ans['error']]], c04, c08
    seen_ram = {}      # (obj, field) -> keys returned through the unbounded RAM cache of the last layer since the last clear
    seen_disk = {}     # (desc json, field) -> keys stored through the disk cache of the last layer
    recent = {}        # (obj, field) -> keys, most recently used first (bounded RAM cache of the last layer)
    for i, (st, real, meta, m) in enumerate(zip(rec['steps'], rec['real'], rec['meta'], ans['results'])):
        if st['t'] != 'call':
            if st['t'] == 'clear':
                for k in list(seen_ram):
                    if k[0] == meta['obj']:
                        del seen_ram[k]
                for k in list(recent):
                    if k[0] == meta['obj']:
                        del recent[k]
                for k in list(seen_mid):
                    if k[0] == meta['obj']:
                        del seen_mid[k]
            continue
        if canon(real['r']) != canon(m['r']):
            model_diffs.append([i, 'value', real['r'], m['r']])
        if sorted(canon(c) for c in real['log']) != sorted(canon(c) for c in m['log']):
            model_diffs.append([i, 'log', real['log'], m['log']])
        # C04: the cache-free value
        d = meta['obj_desc']
        try:
            want = canon(val_to_json(cache_free_value(d, meta['field'], meta['key'])))
        except Exception:
            want = None
        byvalue = any(f.get('byvalue') for l in d['layers'] for f in l.get('fields', {}).values())
        if 'ok' in real['r']:
            if want is not None and canon(real['r']['ok']) != want:
                # finding F3: a RAM cache answers a key that is == to an earlier key of another type (1 / True, 0 / False)
                has_ram = any(l['k'] == 'ram' for l in d['layers'])
                twin = any(m2.get('key') == meta['key'] and type(m2.get('key')) is not type(meta['key'])
                           for m2 in rec['meta'][:i] if isinstance(m2, dict) and 'key' in m2)
                c04.append({'step': i, 'pyeq': bool(has_ram and twin),
                            'msg': f'call {meta["field"]}({meta["key"]!r}) returned {canon(real["r"]["ok"])[:200]} '
                                   f'but the pipeline without cache layers returns {want[:200]}'})
        else:
            if not (real['r']['err'].startswith('user:') and meta.get('fail_at')):
                c04.append({'step': i, 'msg': f'call {meta["field"]}({meta["key"]!r}) raised {real["r"]["err"]}'})
        # C08: memoisation behind a cache layer anywhere in the pipeline
        cov = covering_cache(d, meta['field']) if not byvalue else None
        if cov:
            p, kind, before = cov
            mk = (meta['obj'] if kind == 'ram' else json.dumps(d, sort_keys=True), meta['field'], p)
            key_ = repr(meta['key'])
            ran = sorted({c[0] for c in real['log']} & before)
            if key_ in seen_mid.get(mk, set()) and ran:
                c08.append({'step': i, 'msg': f'repeating {meta["field"]}({meta["key"]!r}): the {kind} cache layer at position {p} of the pipeline covers '
                                              f'everything the field reads across it, but {ran} (layers before it) executed again'})
            if 'ok' in real['r']:
                seen_mid.setdefault(mk, set()).add(key_)
        # C08: memoisation.  Only when the *last* layer caches the field and nothing is hashed by value upstream.
        last = d['layers'][-1]
        covers = last['k'] in ('ram', 'disk') and (last.get('names') is None or meta['field'] in last['names'])
        ok = 'ok' in real['r']
        if covers and not byvalue:
            kf, key = (meta['obj'], meta['field']), repr(meta['key'])
            expect_hit = None
            if last['k'] == 'ram' and last.get('size') is None:
                expect_hit = key in seen_ram.get(kf, set())
                if ok:
                    seen_ram.setdefault(kf, set()).add(key)
            elif last['k'] == 'ram':
                lst = recent.setdefault(kf, [])
                expect_hit = key in lst[:last['size']]
                if ok:
                    if key in lst:
                        lst.remove(key)
                    lst.insert(0, key)
                    del lst[last['size']:]
            else:
                dk = (json.dumps(d, sort_keys=True), meta['field'])
                expect_hit = key in seen_disk.get(dk, set())
                if ok:
                    seen_disk.setdefault(dk, set()).add(key)
            if expect_hit and real['log']:
                c08.append({'step': i, 'msg': f'repeating {meta["field"]}({meta["key"]!r}) behind {last["k"]}'
                                              f'{"(size=%s)" % last.get("size") if last["k"] == "ram" else ""} executed '
                                              f'{sorted({c[0] for c in real["log"]})} upstream of the cache'})
        # C08: bounded RAM caches stay bounded
        for cid, (n, size) in real['sizes'].items():
            if size is not None and n > size:
                c08.append({'step': i, 'msg': f'a CacheToRam(size={size}) holds {n} entries'})
    # a field the pipeline without cache layers has must compile (in whatever bracketing the layers are composed)
    for pr in rec['problems']:
        if pr['kind'] == 'compile':
            try:
                res_ = refsem.resolve(pr['obj_desc'])
                if res_.get('dependency_error') or 'construct_err' in res_:
                    continue        # some field of the pipeline needs an input nothing provides: every request raises
                exp = refsem.expect_field(res_, pr['op']['field'])
            except Exception:
                continue
            if 'term' in exp:
                msg = f'compiling {pr["op"]["field"]} raised {pr["msg"]} but the layers in sequence define the field'
                c04.append({'step': -1, 'msg': msg})
                c08.append({'step': -1, 'msg': msg})
    return model_diffs, c04, c08


def run_shard(args):
    seed, n = args
    scratch = tempfile.mkdtemp(prefix='cv-cache-', dir=ensure_scratch())
    try:
        recs = []
        for i in range(n):
            r = run_case(seed * 15485863 + i, scratch)
            if r is not None:
                recs.append(r)
        answers = driver.run_lines([{'op': 'vm', **r['case'], 'steps': r['steps']} for r in recs])
        stats = {'histories': 0, 'calls': 0, 'ops': {}, 'caches': {}, 'errors': {}, 'hits': 0,
                 'thm_instances': 0, 'thm_hits': 0, 'thm_contradicted': 0, 'thm_hyp_false': 0}
        model_bad, c04_bad, c08_bad = [], [], []
        distinct = set()
        for rec, ans in zip(recs, answers):
            stats['histories'] += 1
            for op in rec['ops']:
                stats['ops'][op['op']] = stats['ops'].get(op['op'], 0) + 1
            for l in rec['desc']['layers']:
                if l['k'] in ('ram', 'disk'):
                    k = l['k'] + ('' if l['k'] == 'disk' else ('-lru' if l.get('size') else '-dict'))
                    stats['caches'][k] = stats['caches'].get(k, 0) + 1
            for st, real in zip(rec['steps'], rec['real']):
                if st['t'] == 'call':
                    stats['calls'] += 1
                    if not real['log']:
                        stats['hits'] += 1
                    if 'err' in real['r']:
                        stats['errors'][real['r']['err']] = stats['errors'].get(real['r']['err'], 0) + 1
            md, c04, c08 = check_case(rec, ans)
            # instances of CM.C04.full_spec_along_history (+ C05): plain extracted graphs, disk-like stores only, any history
            if 'results' in ans:
                for st, real, m in zip(rec['steps'], rec['real'], ans['results']):
                    if st['t'] != 'call' or 'cached_ok' not in m:
                        continue
                    if m['cached_ok'] and m.get('call_ok'):
                        stats['thm_instances'] += 1
                        if not real['log']:
                            stats['thm_hits'] += 1
                        user = isinstance(m['r'].get('err'), str) and m['r']['err'].startswith('user:') and st.get('fail_at')
                        if not user and canon(m['den']) != canon(m['r']):
                            stats['thm_contradicted'] += 1
                    else:
                        stats['thm_hyp_false'] += 1
            base = {'desc': rec['desc'], 'ops': rec['ops']}
            if md:
                model_bad.append({**base, 'diffs': json.loads(json.dumps(md[:3], default=str))})
            if c04:
                c04_bad.append({**base, 'failures': c04[:3]})
            if c08:
                c08_bad.append({**base, 'failures': c08[:3]})
            if len(rec['steps']) >= 5:
                distinct.add(json.dumps([rec['desc'], rec['ops']], sort_keys=True, default=str))
        stats['distinct_nontrivial'] = len(distinct)
        sample = {'desc': recs[0]['desc'], 'ops': recs[0]['ops'][:8]} if recs else None
        return stats, model_bad, c04_bad, c08_bad, sample
    finally:
        shutil.rmtree(scratch, ignore_errors=True)


def ensure_scratch():
    os.makedirs(paths.SCRATCH, exist_ok=True)
    return paths.SCRATCH


# ---------------------------------------------------------------- concrete values through the default serializers of the disk caches

import collections
ZooPoint = collections.namedtuple('ZooPoint', ['row', 'col'])


def _zoo():
    import numpy as np
    from collections import OrderedDict
    P = ZooPoint
    return {
        'arr_f': np.arange(6, dtype='float32').reshape(2, 3), 'arr_i8': np.arange(4, dtype='int8'), 'arr_u16': np.arange(3, dtype='uint16'),
        'arr_bool': np.array([True, False, True]), 'arr_0d': np.array(5), 'arr_empty': np.zeros((0, 2)), 'scalar_i64': np.int64(7),
        'scalar_f32': np.float32(1.5), 'dict_str': {'a': np.ones(2), 'b': np.zeros(3)},
        'dict_tuple_keys': {(0, 1): np.ones(2), (2, 3): np.zeros(1)}, 'dict_npint_keys': {np.int64(1): np.ones(1), np.int64(2): np.zeros(2)},
        'dict_int_keys': {1: 'x', 2: [1, 2]}, 'dict_mixed_keys': {'a': 1, 2: 'b'}, 'dict_bytes_keys': {b'k': np.ones(1)},
        'nested': ({'a': (1, 2)}, [np.int32(3), None]), 'tuple_of_arrays': (np.ones(2), np.zeros(2, dtype=int)), 'list_mixed': [1, 'a', None, 2.5],
        'none': None, 'bytes': b'\\x00\\x01', 'set': {1, 2, 3}, 'frozenset': frozenset(['a']), 'ordered': OrderedDict([('z', 1), ('a', 2)]),
        'namedtuple': P(1, 2), 'complex': 1 + 2j, 'big_int': 2 ** 70, 'str_unicode': 'h\\u00e9llo', 'empty_dict': {}, 'empty_tuple': (),
        'bool': True, 'float_nan_free': 0.1 + 0.2,
    }


def _same(a, b):
    import numpy as np
    if type(a) is not type(b):
        return False
    if isinstance(a, np.ndarray):
        return a.dtype == b.dtype and a.shape == b.shape and bool(np.array_equal(a, b))
    if isinstance(a, dict):
        return list(map(repr, a)) == list(map(repr, b)) and all(_same(a[k], b[k]) for k in a) if not isinstance(a, (set, frozenset)) else a == b
    if isinstance(a, (list, tuple)):
        return len(a) == len(b) and all(_same(x, y) for x, y in zip(a, b))
    return a == b


def _zoo_child(arg):
    kind, root = arg
    import sys
    paths.use_repo()
    from connectome import Transform, CacheToDisk, CacheColumns, Source, meta
    zoo = _zoo()
    names = sorted(zoo)
    calls = []

    class Z(Source):
        @meta
        def ids():
            return tuple(names)

        def value(i):
            calls.append(i)
            return _zoo()[i]
    out = {}
    for rebuilt in (False, True):
        try:
            if kind == 'disk':
                p = Z() >> CacheToDisk.simple('value', root=root)
            else:
                p = Z() >> CacheColumns.simple('value', root=root, shard_size=4) if hasattr(CacheColumns, 'simple') else None
            if p is None:
                return {}
        except Exception as e:
            return {'build': type(e).__name__ + ': ' + str(e)[:100]}
        for n in names:
            for rep in range(2):
                tag = f'{n}/{"rebuilt" if rebuilt else "first"}/{rep}'
                try:
                    got = p.value(n)
                    if not _same(got, zoo[n]):
                        out[tag] = f'returned {got!r:.80} instead of {zoo[n]!r:.80}'
                except Exception as e:
                    out[tag] = 'raised ' + type(e).__name__ + ': ' + str(e)[:100]
    return out


def run_value_zoo(scratch):
    """C04 with CONCRETE values: a pure field returning numpy arrays of several dtypes, dicts with tuple / numpy / bytes / mixed keys,
    nested containers, sets, named tuples, None ... behind `CacheToDisk.simple` (default serializers): the first call, the second
    call and a rebuilt pipeline on the same storage return the cache-free value (same type, same contents), never an error of the
    cache's own"""
    from .par import with_deadline
    root = tempfile.mkdtemp(prefix='zoo-', dir=scratch)
    status, out = with_deadline(_zoo_child, ('disk', root), timeout=120)
    shutil.rmtree(root, ignore_errors=True)
    if status != 'ok':
        return [{'msg': f'the value zoo behind CacheToDisk.simple did not finish: {status}'}], 0
    if 'build' in out:
        return [{'msg': 'building Source >> CacheToDisk.simple raised ' + out['build']}], 0
    return [{'case': k, 'msg': f'CacheToDisk.simple over a pure field, value {k}: {v}'} for k, v in sorted(out.items())], 2 * 2 * len(_zoo())


def run_bracketings(seed=0):
    """systematic: src >> T1 >> cache >> T2 [>> cache2] in every bracketing of `bracketed`, every kind of unbounded cache and every
    way a field reaches it (produced by T1, consumed by T1, inherited only): the second identical call runs nothing before the cache"""
    import itertools
    rng = random.Random(seed)
    scratch = tempfile.mkdtemp(prefix='cv-brk-', dir=ensure_scratch())
    problems, calls = [], 0
    try:
        for shape, kind, names, tail in itertools.product([0, 1, 2, 3], ['ram', 'disk'], [None, ['p', 'a', 'c']], [False, True]):
            src = {'k': 'source', 'cls': 'S0', 'ids': ['a', 'b', 'c'], 'fields': {'a': {'args': ['i']}, 'b': {'args': ['i']}, 'p': {'args': ['i']}},
                   'params': {}, 'cargs': {}, 'defaults': {}}
            t1 = {'k': 'transform', 'cls': 'T1', 'fields': {'c': {'args': ['a'], 'f': 'T1.c'}, 'd': {'args': ['b'], 'f': 'T1.d'}},
                  'params': {}, 'cargs': {}, 'defaults': {}, 'inherit': True}
            cache = {'k': 'ram', 'names': names, 'size': None} if kind == 'ram' else {'k': 'disk', 'names': names or ['p', 'a', 'c', 'd'], 'root': 0}
            t2 = {'k': 'transform', 'cls': 'T2', 'fields': {'e': {'args': ['c']}}, 'params': {}, 'cargs': {}, 'defaults': {}, 'inherit': True}
            layers = [src, t1, cache, t2] + ([{'k': 'ram', 'names': ['e'], 'size': 2}] if tail else [])
            desc = {'k': 'chain', 'flavour': 'chain', 'layers': layers}
            world = SymWorld()
            b = Builder(world, roots=[tempfile.mkdtemp(dir=scratch)])
            pipe = Pipe(b, desc, shape)
            for field in ['p', 'a', 'c']:
                cov = covering_cache(desc, field)
                try:
                    f = pipe.fn(field)
                    f('a')
                    mark = world.mark()
                    f('a')
                    calls += 2
                except Exception as e:
                    problems.append({'desc': desc, 'shape': shape, 'msg': f'bracketing {shape} of {[l["k"] for l in layers]}: {field} raised {exc_name(e)}'})
                    continue
                ran = sorted({c[0] for c in world.since(mark)} & (cov[2] if cov else set()))
                if cov and ran:
                    problems.append({'desc': desc, 'shape': shape,
                                     'msg': f'bracketing {shape} of {[l["k"] for l in layers]} (cache names {names}): repeating {field}("a") executed {ran} '
                                            f'although the {kind} cache layer covers the field'})
    finally:
        shutil.rmtree(scratch, ignore_errors=True)
    return calls, problems


def run_stacked_lru(seed=0):
    """two bounded RAM caches for the same field, one above the other with only pass-through layers (or nothing) between them, in every
    order of sizes: the upper `CacheToRam(size=k)` hits on its k most recently used keys whatever sits below it"""
    import itertools
    problems, calls = [], 0
    for lo, hi, between in itertools.product([1, 2, 3], [1, 2, 4], ['nothing', 'transform', 'unrelated-cache']):
        world = SymWorld()
        b = Builder(world, roots=[])
        src = {'k': 'source', 'cls': 'SL', 'ids': ['a'], 'fields': {'a': {'args': ['i']}, 'b': {'args': ['i']}}, 'params': {}, 'cargs': {}, 'defaults': {}}
        mid = {'nothing': [], 'transform': [{'k': 'transform', 'cls': 'SM', 'fields': {'c': {'args': ['b']}}, 'params': {}, 'cargs': {}, 'defaults': {}, 'inherit': True}],
               'unrelated-cache': [{'k': 'ram', 'names': ['b'], 'size': 1}]}[between]
        layers = [src, {'k': 'ram', 'names': ['a'], 'size': lo}] + mid + [{'k': 'ram', 'names': ['a'], 'size': hi}]
        f = b.layer({'k': 'chain', 'flavour': 'chain', 'layers': layers})._compile('a')
        keys = [f'k{j}' for j in range(max(lo, hi) + 1)]
        for k in keys:
            f(k)
        mark = world.mark()
        for k in keys[-hi:]:
            f(k)
        calls += len(keys) + hi
        ran = [c[1][0] for c in world.since(mark)]
        if ran:
            problems.append({'sizes': [lo, hi], 'between': between,
                             'msg': f'CacheToRam(a, size={lo}) >> {between} >> CacheToRam(a, size={hi}): repeating the {hi} most recently used keys '
                                    f'executed the source again for {ran}'})
    return calls, problems


def run_falsy_cached(seed=0):
    """fields whose value is None / falsy behind every kind of cache layer (also a RAM cache over a disk cache, also in a tuple request): the
    second identical call is a hit - it executes nothing upstream (C03, C08) and returns the same value (C04)"""
    import itertools
    scratch = tempfile.mkdtemp(prefix='cv-falsy-', dir=ensure_scratch())
    problems, calls = [], 0
    try:
        for value, kind in itertools.product([None, 0, '', [], False, 0.0], ['ram', 'lru', 'disk', 'ram-over-disk', 'columns']):
            world = SymWorld()
            world.consts['FV.x'] = value
            b = Builder(world, roots=[tempfile.mkdtemp(dir=scratch), tempfile.mkdtemp(dir=scratch)])
            src = {'k': 'source', 'cls': 'FV', 'ids': ['a', 'b'], 'fields': {'x': {'args': ['i'], 'f': 'FV.x'}, 'y': {'args': ['i'], 'f': 'FV.y'}},
                   'params': {}, 'cargs': {}, 'defaults': {}}
            caches = {'ram': [{'k': 'ram', 'names': ['x'], 'size': None}], 'lru': [{'k': 'ram', 'names': ['x'], 'size': 2}],
                      'disk': [{'k': 'disk', 'names': ['x'], 'root': 0}],
                      'ram-over-disk': [{'k': 'disk', 'names': ['x'], 'root': 0}, {'k': 'ram', 'names': ['x'], 'size': None}],
                      'columns': [{'k': 'columns', 'names': ['x'], 'root': 1, 'shard': None}]}[kind]
            try:
                pipe = b.layer({'k': 'chain', 'flavour': 'chain', 'layers': [src] + caches})
                for req in ('x', ('x', 'y')):
                    f = pipe._compile(req)
                    first = f('a')
                    mark = world.mark()
                    second = f('a')
                    calls += 2
                    ran = sorted({c[0] for c in world.since(mark)} & {'FV.x'})
                    if ran:
                        problems.append({'value': repr(value), 'cache': kind,
                                         'msg': f'a field whose value is {value!r} behind {kind}: the second identical call of {req} executed {ran} again (a cached falsy value is a hit)'})
                        break
                    if repr(first) != repr(second):
                        problems.append({'value': repr(value), 'cache': kind, 'msg': f'a field whose value is {value!r} behind {kind}: first call {first!r}, second call {second!r}'})
                        break
            except Exception as e:
                problems.append({'value': repr(value), 'cache': kind, 'msg': f'a field whose value is {value!r} behind {kind} raised {exc_name(e)}: {str(e)[:100]}'})
    finally:
        shutil.rmtree(scratch, ignore_errors=True)
    return calls, problems


def run_lazy_values_cached(seed=0):
    """fields whose value is a one-shot / lazy object (a generator, `iter(...)`, `zip`, `map`, `range`, a dict view) behind a RAM cache:
    the cache stores whatever the function returned - the repeated call executes nothing upstream and returns the very same object"""
    paths.use_repo()
    import connectome as c
    problems, calls = [], 0
    makers = {'generator': lambda i: (ch for ch in i), 'iter': lambda i: iter([i, i]), 'zip': lambda i: zip(i, i), 'map': lambda i: map(str, [i]),
              'range': lambda i: range(3), 'dict-view': lambda i: {i: 1}.keys(), 'filter': lambda i: filter(None, [i])}
    for name, mk in makers.items():
        for size in (None, 3):
            count = []

            def fx(id, mk=mk, count=count):
                count.append(id)
                return mk(id)
            fx.__defaults__ = None

            def fy(id):
                count.append(id)
                return mk(id)
            try:
                pipe = c.Transform(x=fy) >> c.CacheToRam(size=size)
                first = pipe.x('ab')
                second = pipe.x('ab')
                third = pipe.x('ab')
                calls += 3
                if len(count) != 1:
                    problems.append({'value': name, 'msg': f'a field returning a {name} object behind CacheToRam(size={size}): three identical calls executed the function '
                                                           f'{len(count)} times'})
                elif second is not first or third is not first:
                    problems.append({'value': name, 'msg': f'a field returning a {name} object behind CacheToRam(size={size}): the repeated call returned another object'})
            except Exception as e:
                problems.append({'value': name, 'msg': f'a field returning a {name} object behind CacheToRam(size={size}) raised {exc_name(e)}: {str(e)[:100]}'})
    return calls, problems


def run_option_variants_shared_disk(seed=0):
    """pipeline variants that differ in ONE option of a dataset-wide layer (keep / drop of the same ids, another id list, another grouping
    field) sharing one disk cache of `ids` and of a grouped field: every variant reads its own values (C04 across pipelines)"""
    rng = random.Random(seed)
    scratch = tempfile.mkdtemp(prefix='cv-optdisk-', dir=ensure_scratch())
    problems, calls = [], 0
    try:
        ids = [f'i{k}' for k in range(6)]
        L = rng.sample(ids, 3)
        src = {'k': 'source', 'cls': 'OV', 'ids': ids, 'params': {}, 'cargs': {}, 'defaults': {},
               'fields': {'x': {'args': ['i'], 'f': 'OV.x'}, 'kk': {'args': ['i'], 'f': 'OV.kk', 'table': [[[i], 'gh'[n % 2]] for n, i in enumerate(ids)]},
                          'k2': {'args': ['i'], 'f': 'OV.k2', 'table': [[[i], 'gh'[n // 3]] for n, i in enumerate(ids)]}}}
        variants = {'keep': [{'k': 'keep', 'ids': L}], 'drop': [{'k': 'drop', 'ids': L}], 'keep-other': [{'k': 'keep', 'ids': sorted(set(ids) - set(L))[:2]}],
                    'keep-group': [{'k': 'keep', 'ids': L}, {'k': 'groupby', 'by': 'kk'}], 'drop-group': [{'k': 'drop', 'ids': L}, {'k': 'groupby', 'by': 'kk'}],
                    'keep-group2': [{'k': 'keep', 'ids': L}, {'k': 'groupby', 'by': 'k2'}]}
        order = list(variants)
        rng.shuffle(order)
        root = tempfile.mkdtemp(dir=scratch)
        for name in order:
            world = SymWorld()
            plain = Builder(world, roots=[root]).layer({'k': 'chain', 'flavour': 'chain', 'layers': [src] + variants[name]})
            cached = Builder(world, roots=[root]).layer({'k': 'chain', 'flavour': 'chain',
                                                        'layers': [src] + variants[name] + [{'k': 'disk', 'names': ['ids', 'x'], 'root': 0}]})
            want_ids = tuple(plain.ids)
            got_ids = tuple(cached.ids)
            calls += 1
            if got_ids != want_ids:
                problems.append({'variant': name, 'order': order, 'msg': f'variants {order} (filled in this order) sharing one disk cache: `ids` of {name} ({variants[name]}) is '
                                                                        f'{got_ids}, without caches {want_ids}'})
                break
            for key in want_ids[:2]:
                a, b_ = canon(val_to_json(cached.x(key), world)), canon(val_to_json(plain.x(key), world))
                calls += 1
                if a != b_:
                    problems.append({'variant': name, 'order': order, 'msg': f'variants {order} sharing one disk cache: x({key!r}) of {name} is {a[:100]}, without caches {b_[:100]}'})
                    break
    except Exception as e:
        problems.append({'msg': 'option variants scenario raised ' + exc_name(e) + ': ' + str(e)[:120]})
    finally:
        shutil.rmtree(scratch, ignore_errors=True)
    return calls, problems
