"""S-SCHED (C11): real threads calling one pipeline object under a deterministic scheduler.

Every instrumented point - entry of a user function, acquisition of a MemoryCache lock - is a *gate*: the thread
blocks there until the controller releases exactly the thread the schedule names.  The memory cache's lock and table
are wrapped by proxies that record, at every table access, whether the accessing thread holds the lock.
Schedules: every 0/1 word up to a depth (exhaustive) for two threads, random longer ones, three threads in the
thorough tier.  Oracle: every call returns the sequential value and raises nothing; every table access happens under
the lock."""
import itertools, os, random, shutil, tempfile, threading, time
from . import paths
from .pipeline import Builder
from .sym import SymWorld
from .codec import canon, val_to_json, exc_name


class Controller:
    """releases one thread at a time; a thread that reaches a gate parks until it is chosen"""

    def __init__(self, schedule, n_threads):
        self.cv = threading.Condition()
        self.schedule = list(schedule)
        self.pos = 0
        self.parked = {}            # tid -> label
        self.running = None         # tid allowed to run
        self.finished = set()
        self.n = n_threads
        self.trace = []
        self.enabled = True

    def tid(self):
        return getattr(threading.current_thread(), 'cv_tid', None)

    def gate(self, label):
        t = self.tid()
        if t is None or not self.enabled:
            return
        with self.cv:
            self.parked[t] = label
            if self.running == t:
                self.running = None
            self.cv.notify_all()
            while self.running != t:
                self.cv.wait(timeout=5)
                if not self.enabled:
                    return
            self.parked.pop(t, None)
            self.trace.append((t, label))

    def done(self):
        t = self.tid()
        with self.cv:
            self.finished.add(t)
            if self.running == t:
                self.running = None
            self.cv.notify_all()

    def drive(self, threads, timeout=20):
        """the scheduling loop (controller thread)"""
        deadline = time.time() + timeout
        with self.cv:
            while len(self.finished) < self.n:
                if time.time() > deadline:
                    self.enabled = False
                    self.cv.notify_all()
                    return False
                # wait until nobody runs and everyone alive is parked
                alive = [t for t in range(self.n) if t not in self.finished]
                if self.running is not None or any(t not in self.parked for t in alive):
                    self.cv.wait(timeout=0.05)
                    continue
                # choose the next thread: the schedule, then round-robin
                want = None
                while self.pos < len(self.schedule):
                    c = self.schedule[self.pos]
                    self.pos += 1
                    if c in alive:
                        want = c
                        break
                if want is None:
                    want = alive[0]
                # a thread parked at a lock that another thread holds cannot proceed: pick someone who can
                blocked = [t for t in alive if self.parked.get(t, '').startswith('acquire') and LockProxy.held_by_other(self.parked[t], t)]
                if want in blocked:
                    others = [t for t in alive if t not in blocked]
                    if not others:
                        self.enabled = False
                        self.cv.notify_all()
                        return False
                    want = others[0]
                self.running = want
                self.cv.notify_all()
        return True


class GKey(str):
    """a string key whose equality test is a gate: another thread may run while a comparison that involves the key is in
    progress (dictionary probes, comparisons of node hashes that contain the key)"""
    ctrl = None

    def __eq__(self, other):
        c = GKey.ctrl
        if c is not None:
            c.gate('eq')
        return str.__eq__(self, other)

    def __ne__(self, other):
        return not self.__eq__(other)

    __hash__ = str.__hash__


class LockProxy:
    registry = {}

    def __init__(self, ctrl, name):
        self.lock = threading.Lock()
        self.ctrl, self.name = ctrl, name
        self.owner = None
        LockProxy.registry[name] = self

    @staticmethod
    def held_by_other(label, tid):
        name = label.split(':', 1)[1]
        p = LockProxy.registry.get(name)
        return p is not None and p.owner is not None and p.owner != tid

    def acquire(self, *a, **kw):
        self.ctrl.gate('acquire:' + self.name)
        r = self.lock.acquire(*a, **kw)
        self.owner = self.ctrl.tid()
        return r

    def release(self):
        self.owner = None
        self.lock.release()

    def __enter__(self):
        self.acquire()
        return self

    def __exit__(self, *a):
        self.release()

    def locked(self):
        return self.lock.locked()


class TableProxy:
    """wraps the dict / lrucache of a MemoryCache: every access is logged with the lock state"""

    keep = []       # every raw table wrapped during a schedule stays alive, so that `id(table)` identifies it (no address is reused)

    def __init__(self, table, lock, log, ctrl):
        self._t, self._lock, self._log, self._ctrl = table, lock, log, ctrl
        TableProxy.keep.append(table)

    def _note(self, what):
        tid = self._ctrl.tid()
        # the raw table and the lock it is accessed under: one table must be guarded by ONE lock
        self._log.append((what, tid, self._lock.owner == tid and tid is not None, id(self._t), self._lock.name))

    def __contains__(self, k):
        self._note('in')
        return k in self._t

    def __getitem__(self, k):
        self._note('get')
        return self._t[k]

    def __setitem__(self, k, v):
        self._note('set')
        self._t[k] = v

    def __len__(self):
        return len(self._t)


def instrument(layer_obj, ctrl, log):
    """wrap every MemoryCache reachable from the compiled functions' graphs"""
    pass


def scenario(rng_choice):
    """pipeline descriptions with a RAM cache of a given size"""
    size, two_fields = rng_choice
    src = {'k': 'source', 'cls': 'TS', 'ids': ['a', 'b'], 'fields': {'a': {'args': ['i']}}, 'params': {}, 'cargs': {}, 'defaults': {}}
    t = {'k': 'transform', 'cls': 'TT', 'fields': {'x': {'args': ['a']}, 'y': {'args': ['a']}}, 'params': {}, 'cargs': {}, 'defaults': {}, 'inherit': True}
    cache = {'k': 'ram', 'names': ['x', 'y'] if two_fields else ['x'], 'size': size}
    return {'k': 'chain', 'flavour': 'chain', 'layers': [src, t, cache]}


def merge_scenario(size):
    """Merge of two datasets >> a field reading two merged fields >> RAM cache: the routing decision of one call must not be
    seen by another call (edges are shared between threads)"""
    parts = [{'k': 'source', 'cls': f'MS{j}', 'ids': [i], 'fields': {'x': {'args': ['i'], 'f': f'MS{j}.x'}, 'y': {'args': ['i'], 'f': f'MS{j}.y'}},
              'params': {}, 'cargs': {}, 'defaults': {}} for j, i in enumerate(['a', 'b'])]
    t = {'k': 'transform', 'cls': 'MT', 'fields': {'pair': {'args': ['x', 'y']}}, 'params': {}, 'cargs': {}, 'defaults': {}, 'inherit': True}
    return {'k': 'chain', 'flavour': 'chain', 'layers': [{'k': 'merge', 'parts': parts}, t, {'k': 'ram', 'names': ['pair'], 'size': size}]}


def columns_scenario(shard):
    """Source >> Transform >> CacheColumns: calls for different keys of one shard share the column's RAM table, the disk
    entry of the shard and the inner graph; gates: the RAM table's lock and every user function"""
    src = {'k': 'source', 'cls': 'TS', 'ids': ['a', 'b', 'c'], 'fields': {'a': {'args': ['i']}}, 'params': {}, 'cargs': {}, 'defaults': {}}
    t = {'k': 'transform', 'cls': 'TT', 'fields': {'x': {'args': ['a']}, 'y': {'args': ['a']}}, 'params': {}, 'cargs': {}, 'defaults': {}, 'inherit': True}
    return {'k': 'chain', 'flavour': 'chain', 'layers': [src, t, {'k': 'columns', 'names': ['x'], 'root': 0, 'shard': shard}]}


def join_scenario():
    """Join of two datasets on a key field: the first use of the pipeline computes the id mapping (every key function of both
    sides) inside whichever call comes first; two calls that both miss it interleave at the user functions"""
    left = {'k': 'source', 'cls': 'JL', 'ids': ['a', 'b'], 'params': {}, 'cargs': {}, 'defaults': {},
            'fields': {'k': {'args': ['i'], 'f': 'JL.k', 'table': [[['a'], 'u'], [['b'], 'v']]}, 'x': {'args': ['i'], 'f': 'JL.x'}}}
    right = {'k': 'source', 'cls': 'JR', 'ids': ['c', 'd'], 'params': {}, 'cargs': {}, 'defaults': {},
             'fields': {'k': {'args': ['i'], 'f': 'JR.k', 'table': [[['c'], 'u'], [['d'], 'v']]}, 'z': {'args': ['i'], 'f': 'JR.z'}}}
    return {'k': 'chain', 'flavour': 'chain', 'layers': [{'k': 'join', 'left': left, 'right': right, 'on': ['k'], 'how': 'inner'}]}


def run_schedule(desc, plans, schedule, gated_keys=False):
    if desc['layers'][-1]['k'] == 'columns':
        os.makedirs(paths.SCRATCH, exist_ok=True)
        root = tempfile.mkdtemp(prefix='cv-sched-', dir=paths.SCRATCH)
        try:
            return _run_schedule(desc, plans, schedule, [root], gated_keys)
        finally:
            shutil.rmtree(root, ignore_errors=True)
            shutil.rmtree(root + '-twin', ignore_errors=True)
    return _run_schedule(desc, plans, schedule, None, gated_keys)


def _run_schedule(desc, plans, schedule, roots, gated_keys=False):
    """plans: per thread a list of (field, key); returns (results per thread, access log, completed?)"""
    paths.use_repo()
    from connectome.cache import MemoryCache
    world = SymWorld()
    ctrl = Controller(schedule, len(plans))
    LockProxy.registry = {}
    TableProxy.keep = []
    log = []
    # gate at the entry of every user function
    orig_fn = world.fn

    b = Builder(world, roots=roots) if roots else Builder(world)
    b.ram_layers = []
    layer = b.layer(desc)
    fns = {}
    wrapped = []
    for plan in plans:
        for field, _ in plan:
            if field not in fns and field != '__clear__':
                fns[field] = layer._compile(field)
    # wrap the memory caches
    seen = set()
    for fn in fns.values():
        stack = [fn.output]
        while stack:
            n = stack.pop()
            if id(n) in seen or n.is_leaf:
                continue
            seen.add(id(n))
            for attr in ('cache', 'ram'):
                c = getattr(n.edge, attr, None)
                if isinstance(c, MemoryCache) and not isinstance(c._lock, LockProxy):
                    c._lock = LockProxy(ctrl, f'L{len(LockProxy.registry)}')
                    raw = c._cache._t if isinstance(c._cache, TableProxy) else c._cache      # a table shared by several caches
                    c._cache = TableProxy(raw, c._lock, log, ctrl)
                    wrapped.append((c, c._lock))
            stack.extend(n.parents)
    # gate user functions: wrap world's call log append
    real_log = world.log

    class GateLog(list):
        def append(self_inner, item):
            ctrl.gate('call:' + item[0])
            list.append(self_inner, item)
    world.log = GateLog(real_log)
    results = [[] for _ in plans]
    # the node hash every call gets in a sequential execution (computed before the threads start)
    from .codec import hash_to_json
    seq_hash = {}
    # computed on a twin pipeline built from the same description (its own layer objects and caches), so that the pipeline under
    # test is used for the first time by the threads
    twin = (Builder(world, roots=[r_ + '-twin' for r_ in roots]) if roots else Builder(world)).layer(desc)
    twin_fns = {}
    for plan in plans:
        for field, key in plan:
            if field == '__clear__':
                continue
            try:
                if field not in twin_fns:
                    twin_fns[field] = twin._compile(field)
                seq_hash[(field, key)] = canon(hash_to_json(twin_fns[field].get_hash(key)[0].value, world))
            except Exception as e:
                seq_hash[(field, key)] = 'ERR ' + exc_name(e)

    def worker(tid):
        threading.current_thread().cv_tid = tid
        ctrl.gate('start')
        for field, key in plans[tid]:
            if field == '__clear__':
                # `CacheToRam._clear()` while the other threads use the pipeline; the fresh tables are instrumented again at once
                for l_ in b.ram_layers:
                    l_._clear()
                for c_, _ in wrapped:
                    if not isinstance(c_._cache, TableProxy):
                        c_._cache = TableProxy(c_._cache, c_._lock, log, ctrl)
                results[tid].append({'cleared': True})
                continue
            try:
                arg = GKey(key) if gated_keys and isinstance(key, str) else key     # a fresh, equal object per call
                try:
                    h = canon(hash_to_json(fns[field].get_hash(arg)[0].value, world))
                except Exception as e:
                    h = 'ERR ' + exc_name(e)
                results[tid].append({'ok': canon(val_to_json(fns[field](arg), world)), 'hash': h, 'seq_hash': seq_hash[(field, key)]})
            except Exception as e:
                results[tid].append({'err': exc_name(e) + ': ' + str(e)[:80]})
        ctrl.done()
    threads = [threading.Thread(target=worker, args=(i,), daemon=True) for i in range(len(plans))]
    GKey.ctrl = ctrl if gated_keys else None
    try:
        for t in threads:
            t.start()
        ok = ctrl.drive(threads)
        for t in threads:
            t.join(timeout=2)
    finally:
        GKey.ctrl = None
    for c_, proxy in wrapped:
        if c_._lock is not proxy:
            # reported through the access log: (what, thread, lock held?, table, lock)
            log.append(('lock-replaced', None, True, 'table-of-a-cleared-cache', 'another lock object than the one the cache was created with'))
            log.append(('lock-replaced', None, True, 'table-of-a-cleared-cache', getattr(proxy, 'name', 'L?')))
    return results, log, ok, ctrl.trace


def expected(plans, desc=None):
    """the sequential value of every call: symbolic, so it depends on (field, key) only"""
    out = []
    if desc is not None and desc['layers'][0]['k'] == 'join':
        owner = {'x': ('JL.x', {'u': 'a', 'v': 'b'}), 'z': ('JR.z', {'u': 'c', 'v': 'd'})}
        for plan in plans:
            out.append([canon({'app': [owner[f][0], [owner[f][1][k]], [], []]}) for f, k in plan])
        return out
    if desc is not None and desc['layers'][0]['k'] == 'merge':
        owner = {'a': 0, 'b': 1}
        for plan in plans:
            out.append([canon({'app': ['MT.pair', [{'app': [f'MS{owner[k]}.x', [k], [], []]}, {'app': [f'MS{owner[k]}.y', [k], [], []]}], [], []]})
                        for f, k in plan])
        return out
    for plan in plans:
        out.append([None if f == '__clear__' else canon({'app': [f'TT.{f}', [{'app': ['TS.a', [k], [], []]}], [], []]}) for f, k in plan])
    return out


def check_one(desc, plans, schedule, gated_keys=False):
    results, log, ok, trace = run_schedule(desc, plans, schedule, gated_keys)
    problems = []
    if not ok:
        problems.append('the schedule did not complete (deadlock or timeout)')
        return problems, len(trace)
    want = expected(plans, desc)
    for tid, (rs, ws) in enumerate(zip(results, want)):
        for r, w, call in zip(rs, ws, plans[tid]):
            if call[0] == '__clear__':
                continue
            if 'err' in r:
                problems.append(f'thread {tid}: {call[0]}({call[1]!r}) raised {r["err"]}; a sequential execution never raises')
            elif r.get('hash') != r.get('seq_hash'):
                problems.append(f'HASH thread {tid}: the node hash of {call[0]}({call[1]!r}) computed while other calls run is {r["hash"][:100]}, '
                                f'a sequential execution computes {r["seq_hash"][:100]}: an evaluation received the node hash of another computation')
            elif r['ok'] != w:
                problems.append(f'thread {tid}: {call[0]}({call[1]!r}) returned {r["ok"][:120]}, every sequential execution returns {w[:120]}')
    unlocked = [(what, tid) for what, tid, held, _, _ in log if not held and tid is not None]
    guards = {}
    for what, tid, held, table, lock in log:
        guards.setdefault(table, set()).add(lock)
    split = [sorted(ls) for ls in guards.values() if len(ls) > 1]
    if split:
        problems.append(f'one memory cache table is read and written under different locks {split[0]}: holding one of them does not '
                        f'exclude a concurrent access under the other, the table is not guarded by its lock')
    if unlocked:
        problems.append(f'the memory cache table was accessed without holding its lock: {unlocked[:3]} ({len(unlocked)} accesses)')
    return problems, len(trace)


def run_shard(args):
    seed, depth, extra_random, three = args
    rng = random.Random(seed)
    size = rng.choice([1, 1, 2, None])
    two = rng.random() < 0.4
    desc = scenario((size, two))
    keys = ['a', 'b', 1, -1, -2]
    n_threads = 3 if three and rng.random() < 0.5 else 2
    plans = []
    r = rng.random()
    if r < 0.25:
        desc = columns_scenario(rng.choice([None, 2, 3]))
        for t in range(n_threads):
            plans.append([('x', rng.choice(['a', 'b', 'c'])) for _ in range(rng.choice([1, 2]))])
        if len({k for p in plans for _, k in p}) == 1:
            plans[-1][-1] = ('x', 'b' if plans[0][0][1] == 'a' else 'a')
    elif r < 0.4:
        desc = join_scenario()
        for t in range(n_threads):
            plans.append([(rng.choice(['x', 'z']), rng.choice(['u', 'v'])) for _ in range(rng.choice([1, 2]))])
    elif r < 0.6:
        desc = merge_scenario(size)
        for t in range(n_threads):
            plans.append([('pair', rng.choice(['a', 'b'])) for _ in range(rng.choice([1, 2]))])
        if len({k for p in plans for _, k in p}) == 1:
            plans[-1][-1] = ('pair', 'b' if plans[0][0][1] == 'a' else 'a')
    else:
        for t in range(n_threads):
            plans.append([(rng.choice(['x', 'y'] if two else ['x']), rng.choice(keys[:3] if rng.random() < 0.7 else keys))
                          for _ in range(rng.choice([1, 2, 2]))])
        if rng.random() < 0.3:
            # one thread clears the RAM cache between (or before) its calls, sometimes twice
            plan = plans[rng.randrange(n_threads)]
            for _ in range(rng.choice([1, 2])):
                plan.insert(rng.randrange(len(plan) + 1), ('__clear__', None))
    schedules = [list(w) for w in itertools.product(range(n_threads), repeat=depth)]
    rng.shuffle(schedules)
    schedules = schedules[:extra_random[0]]
    for _ in range(extra_random[1]):
        schedules.append([rng.randrange(n_threads) for _ in range(rng.randint(depth, depth * 3))])
    problems, steps = [], 0
    # keys with gated equality: only string keys, each thread repeating a key (so that memoised comparisons are entered)
    gated = rng.random() < 0.35
    if gated:
        for plan in plans:
            if len(plan) == 1 or rng.random() < 0.6:
                plan[:] = [plan[0], plan[0]] if isinstance(plan[0][1], str) else plan
    for s in schedules:
        pr, n = check_one(desc, plans, s, gated)
        steps += n
        for p in pr:
            problems.append({'desc': desc, 'plans': plans, 'schedule': s, 'gated_keys': gated, 'msg': p})
        if problems:
            break
    return {'scenarios': 1, 'schedules': len(schedules), 'gates': steps, 'threads': n_threads, 'size': str(size), 'gated_keys': int(gated)}, problems


# ---------------------------------------------------------------- first use of a fresh pipeline object from two threads

def _first_use_once(k, order, with_cache):
    """thread `order[0]` runs `k` line-steps inside the compiler / layer code, then the other thread runs to completion, then the
    first one finishes; both make the FIRST calls on a fresh pipeline object (fields are compiled lazily, on first access)"""
    import sys
    paths.use_repo()
    world = SymWorld()
    src = {'k': 'source', 'cls': 'FS', 'ids': ['a', 'b'], 'fields': {'u': {'args': ['i']}, 'v': {'args': ['i']}}, 'params': {}, 'cargs': {}, 'defaults': {}}
    t = {'k': 'transform', 'cls': 'FT', 'fields': {'x': {'args': ['u']}, 'y': {'args': ['v']}, 'w': {'args': ['u', 'v'], 'opt': True}},
         'params': {}, 'cargs': {}, 'defaults': {}, 'inherit': True}
    layers = [src, t] + ([{'k': 'ram', 'names': None, 'size': None}] if with_cache else [])
    layer = Builder(world).layer({'k': 'chain', 'flavour': 'chain', 'layers': layers})
    a, b = order
    schedule = [a] * (k + 1) + [b] * 100000
    ctrl = Controller(schedule, 2)
    LockProxy.registry = {}
    plans = {0: ('x', 'a'), 1: ('y', 'b')}
    want = {0: canon({'app': ['FT.x', [{'app': ['FS.u', ['a'], [], []]}], [], []]}),
            1: canon({'app': ['FT.y', [{'app': ['FS.v', ['b'], [], []]}], [], []]})}
    results = {}
    marks = ('/connectome/engine/compiler.py', '/connectome/layers/base.py', '/connectome/containers/base.py')

    def local(frame, event, arg):
        if event == 'line':
            ctrl.gate('line')
        return local

    def tracer(frame, event, arg):
        fn = frame.f_code.co_filename
        if event == 'call' and fn.endswith(marks):
            return local
        return None

    def worker(tid):
        threading.current_thread().cv_tid = tid
        ctrl.gate('start')
        sys.settrace(tracer)
        try:
            f, key = plans[tid]
            try:
                results[tid] = ('ok', canon(val_to_json(getattr(layer, f)(key), world)))
            except Exception as e:
                results[tid] = ('err', exc_name(e) + ': ' + str(e)[:80])
        finally:
            sys.settrace(None)
            ctrl.done()
    threads = [threading.Thread(target=worker, args=(i,), daemon=True) for i in range(2)]
    for th in threads:
        th.start()
    ok = ctrl.drive(threads, timeout=30)
    for th in threads:
        th.join(timeout=2)
    problems = []
    if not ok:
        return ['the schedule did not complete (deadlock or timeout)'], len(ctrl.trace)
    for tid in (0, 1):
        r = results.get(tid)
        if r is None or r[0] == 'err':
            problems.append(f'first use from two threads: thread {tid} calling {plans[tid][0]}({plans[tid][1]!r}) on a fresh pipeline object while the other '
                            f'thread was inside its first call got {r[1] if r else "nothing"}; every sequential order returns the value')
        elif r[1] != want[tid]:
            problems.append(f'first use from two threads: thread {tid} got {r[1][:100]}, a sequential execution returns {want[tid][:100]}')
    return problems, len(ctrl.trace)


def run_first_use(args):
    """a sweep over the point at which the second thread cuts in: shard `i` of 16 takes the points k = i, i + 16, ... (every line-step
    of the first thread's first call is tried by some shard), the thorough tier both orders and both pipelines"""
    seed, shard, both = args
    rng = random.Random(seed)
    problems, steps, runs = [], 0, 0
    for k in range(shard, 352, 16):
        variants = [((0, 1), False), ((1, 0), True)] if both else [(rng.choice([(0, 1), (1, 0)]), rng.random() < 0.3)]
        for order, with_cache in variants:
            pr, st = _first_use_once(k, order, with_cache)
            runs += 1
            steps += st
            for p in pr:
                problems.append({'k': k, 'order': order, 'with_cache': with_cache, 'msg': p})
        if problems:
            break
    return {'first_use_runs': runs, 'gates': steps}, problems


def _steady_once(k, order):
    """both threads call ONE compiled function (already used once) on different inputs; thread `order[0]` runs `k` line-steps inside
    the engine (vm.py / edges.py / graph.py), then the other thread's call runs to completion, then the first one finishes.  The
    field binds one argument by keyword (explicit `Function(f, 'u', name='v')`) and one positionally"""
    import sys
    paths.use_repo()
    world = SymWorld()
    src = {'k': 'source', 'cls': 'GS', 'ids': ['a', 'b'], 'fields': {'u': {'args': ['i']}, 'v': {'args': ['i']}}, 'params': {}, 'cargs': {}, 'defaults': {}}
    t = {'k': 'transform', 'cls': 'GT', 'fields': {'x': {'args': ['p', 'name'], 'posbind': ['u'], 'kwbind': {'name': 'v'}},
                                                   'y': {'args': ['u', 'v']}},
         'params': {}, 'cargs': {}, 'defaults': {}, 'inherit': True}
    layer = Builder(world).layer({'k': 'chain', 'flavour': 'chain', 'layers': [src, t]})
    fn = layer._compile(('x', 'y'))
    want = {}
    for tid, key in ((0, 'a'), (1, 'b')):
        want[tid] = canon(val_to_json(fn(key), world))      # sequential values (also: the function has been used before)
    a, b = order
    schedule = [a] * (k + 1) + [b] * 100000
    ctrl = Controller(schedule, 2)
    LockProxy.registry = {}
    results = {}
    marks = ('/connectome/engine/vm.py', '/connectome/engine/edges.py', '/connectome/engine/graph.py', '/connectome/engine/utils.py')

    def local(frame, event, arg):
        if event == 'line':
            ctrl.gate('line')
        return local

    def tracer(frame, event, arg):
        if event == 'call' and frame.f_code.co_filename.endswith(marks):
            return local
        return None

    def worker(tid):
        threading.current_thread().cv_tid = tid
        ctrl.gate('start')
        sys.settrace(tracer)
        try:
            try:
                results[tid] = ('ok', canon(val_to_json(fn('a' if tid == 0 else 'b'), world)))
            except Exception as e:
                results[tid] = ('err', exc_name(e) + ': ' + str(e)[:80])
        finally:
            sys.settrace(None)
            ctrl.done()
    threads = [threading.Thread(target=worker, args=(i,), daemon=True) for i in range(2)]
    for th in threads:
        th.start()
    ok = ctrl.drive(threads, timeout=30)
    for th in threads:
        th.join(timeout=2)
    if not ok:
        return ['the schedule did not complete (deadlock or timeout)'], len(ctrl.trace)
    problems = []
    for tid in (0, 1):
        r = results.get(tid)
        if r is None or r[0] == 'err':
            problems.append(f'two threads in one compiled function: thread {tid} got {r[1] if r else "nothing"}; a sequential execution returns the value')
        elif r[1] != want[tid]:
            problems.append(f'two threads in one compiled function (cut-in after {k} engine lines): thread {tid} got {r[1][:140]}, a sequential execution returns {want[tid][:140]}')
    return problems, len(ctrl.trace)


def run_steady(args):
    """a sweep over the engine line at which the second thread's call cuts into the first one's: shard `i` of 16 takes k = i, i + 16, ..."""
    seed, shard, both = args
    rng = random.Random(seed)
    problems, steps, runs = [], 0, 0
    total = None
    for k in range(shard, 4000, 16):
        if total is not None and k > total // 2 + 16:     # the first thread's own call is about half of the gates of a run
            break
        for order in ([(0, 1), (1, 0)] if both else [rng.choice([(0, 1), (1, 0)])]):
            pr, st = _steady_once(k, order)
            runs += 1
            steps += st
            # the trace of a run in which the first thread was never pre-empted inside its call bounds the sweep
            total = st if total is None else max(total, st)
            for p in pr:
                problems.append({'k': k, 'order': order, 'msg': p})
        if problems:
            break
    return {'steady_runs': runs, 'gates': steps}, problems


class OKey(str):
    """an id whose ORDER comparison is a gate (ids with a Python-level `__lt__`, e.g. dataclasses with order=True): another thread may
    run while a sort that involves the ids is in progress"""
    ctrl = None

    def __lt__(self, other):
        c = OKey.ctrl
        if c is not None:
            c.gate('lt')
        return str.__lt__(self, other)

    __hash__ = str.__hash__


def _group_once(k, order, warm):
    """GroupBy over ids with a gated order comparison: two threads ask for fields of the SAME group; thread `order[0]` passes `k`
    gates (user functions and comparisons of ids), then the other thread runs to completion, then the first finishes"""
    paths.use_repo()
    world = SymWorld()
    ids = ['i3', 'i1', 'i2', 'i4']
    src = {'k': 'source', 'cls': 'GG', 'ids': ids, 'params': {}, 'cargs': {}, 'defaults': {},
           'fields': {'kk': {'args': ['i'], 'f': 'GG.kk', 'table': [[[i], 'g'] for i in ids]}, 'x': {'args': ['i'], 'f': 'GG.x'}, 'y': {'args': ['i'], 'f': 'GG.y'}}}
    b = Builder(world)
    b.ids_wrap = OKey
    layer = b.layer({'k': 'chain', 'flavour': 'chain', 'layers': [src, {'k': 'groupby', 'by': 'kk'}]})
    fx, fy = layer._compile('x'), layer._compile('y')
    want = {}
    twin_b = Builder(world)
    twin_b.ids_wrap = OKey
    twin = twin_b.layer({'k': 'chain', 'flavour': 'chain', 'layers': [src, {'k': 'groupby', 'by': 'kk'}]})
    want[0] = canon(val_to_json(twin._compile('x')('g'), world))
    want[1] = canon(val_to_json(twin._compile('y')('g'), world))
    if warm:
        fx('g')         # the mapping exists already: the threads meet in the grouped fields only
    a, c = order
    ctrl = Controller([a] * (k + 1) + [c] * 100000, 2)
    LockProxy.registry = {}
    OKey.ctrl = ctrl
    real_log = world.log

    class GateLog(list):
        def append(self_inner, item):
            ctrl.gate('call:' + item[0])
            list.append(self_inner, item)
    world.log = GateLog(real_log)
    results = {}

    def worker(tid):
        threading.current_thread().cv_tid = tid
        ctrl.gate('start')
        try:
            results[tid] = ('ok', canon(val_to_json((fx if tid == 0 else fy)('g'), world)))
        except Exception as e:
            results[tid] = ('err', exc_name(e) + ': ' + str(e)[:80])
        ctrl.done()
    threads = [threading.Thread(target=worker, args=(i,), daemon=True) for i in range(2)]
    try:
        for th in threads:
            th.start()
        ok = ctrl.drive(threads, timeout=30)
        for th in threads:
            th.join(timeout=2)
    finally:
        OKey.ctrl = None
    if not ok:
        return ['the schedule did not complete (deadlock or timeout)'], len(ctrl.trace)
    problems = []
    for tid in (0, 1):
        r = results.get(tid)
        if r is None or r[0] == 'err':
            problems.append(f'two threads in one group of a GroupBy: thread {tid} got {r[1] if r else "nothing"}; a sequential execution returns the value')
        elif r[1] != want[tid]:
            problems.append(f'two threads in one group of a GroupBy (ids with a Python-level order, cut-in after {k} gates): thread {tid} got {r[1][:120]}, '
                            f'a sequential execution returns {want[tid][:120]}')
    return problems, len(ctrl.trace)


def run_group_sweep(args):
    seed, both = args
    problems, runs, gates = [], 0, 0
    for warm in (True, False):
        total = None
        k = 0
        while total is None or k <= total:
            for order in ([(0, 1), (1, 0)] if both else [(0, 1)]):
                pr, st = _group_once(k, order, warm)
                runs += 1
                gates += st
                total = st if total is None else max(total, st)
                for p in pr:
                    problems.append({'k': k, 'order': order, 'warm': warm, 'msg': p})
            if problems:
                return {'group_runs': runs, 'gates': gates}, problems
            k += 1
    return {'group_runs': runs, 'gates': gates}, problems
