"""S-OUTANN (C18, C02): layers in which a field reads another OUTPUT of the same layer (`def z(y: Output)`), with optional and
required fields on either end of such a link, over upstreams that lack some inputs and downstreams that hide or consume the fields:
the real pipeline against the reference semantics (refsem; there is no Lean stack model of the annotation, oracle only)."""
import random
from .suite_bag import compare

POOL = ['a', 'b', 'c', 'd']


def gen_stack(rng):
    have = rng.sample(['a', 'b'], rng.randint(1, 2)) + (['c'] if rng.random() < 0.35 else [])
    up = {'k': 'source', 'cls': 'OU', 'ids': ['i1', 'i2'], 'fields': {n: {'args': ['i']} for n in have}, 'params': {}, 'cargs': {}, 'defaults': {}}
    # the linked layer: y reads an input (often the missing one), z reads the output y, sometimes w reads the output z
    src_arg = rng.choice(['c', 'c', 'a', 'b'])
    fields = {'d': {'args': list(dict.fromkeys([src_arg] + ([rng.choice(['a', 'b'])] if rng.random() < 0.3 else [])))}}
    if rng.random() < 0.7:
        fields['d']['opt'] = True
    link = rng.choice(POOL[:3] + ['e'])
    if link in ('d',):
        link = 'e'
    fields[link] = {'args': ['d'] + ([rng.choice(['a', 'b'])] if rng.random() < 0.4 else []), 'outargs': ['d']}
    if rng.random() < 0.3:
        fields[link]['opt'] = True
    if rng.random() < 0.3:
        third = 'f'
        fields[third] = {'args': [link], 'outargs': [link]}
        if rng.random() < 0.5:
            fields[third]['opt'] = True
    z = {'k': 'transform', 'cls': 'OZ', 'fields': fields, 'params': {}, 'cargs': {}, 'defaults': {}}
    r = rng.random()
    if r < 0.4:
        z['inherit'] = True
    elif r < 0.8:
        z['inherit'] = rng.sample(['a', 'b', 'c'], rng.randint(1, 2))
    layers = [up, z]
    names = list(fields) + ['a', 'b']
    r = rng.random()
    if r < 0.35:
        layers.append({'k': 'transform', 'cls': 'OK', 'fields': {}, 'params': {}, 'cargs': {}, 'defaults': {},
                       'inherit': rng.sample(names, rng.randint(1, 3))})
    elif r < 0.55:
        layers.append({'k': 'ram', 'names': rng.choice([None, ['d'], [link]]), 'size': None})
        if rng.random() < 0.5:
            layers.append({'k': 'transform', 'cls': 'OK', 'fields': {}, 'params': {}, 'cargs': {}, 'defaults': {},
                           'inherit': rng.sample(names, rng.randint(1, 2))})
    elif r < 0.8:
        layers.append({'k': 'transform', 'cls': 'OC', 'fields': {'g': {'args': [rng.choice(['d', link])], 'opt': rng.random() < 0.6}},
                       'params': {}, 'cargs': {}, 'defaults': {}, 'inherit': rng.sample(names, rng.randint(0, 2)) or None})
        if layers[-1]['inherit'] is None:
            del layers[-1]['inherit']
    flavour = rng.choice(['chain', 'chain', 'rshift'])
    if len(layers) >= 3 and rng.random() < 0.3:
        return {'k': 'chain', 'flavour': 'chain', 'layers': [layers[0], {'k': 'chain', 'flavour': 'chain', 'layers': layers[1:]}]}
    return {'k': 'chain', 'flavour': flavour, 'layers': layers}


def run_shard(args):
    seed, n = args
    stats = {'stacks': 0, 'dependency_errors': 0, 'usable': 0, 'left_out_quietly': 0}
    problems = []
    for i in range(n):
        rng = random.Random(seed * 6007 + i)
        stack = gen_stack(rng)
        diffs, obs = compare(stack)
        stats['stacks'] += 1
        if obs.get('dir_err') == 'DependencyError':
            stats['dependency_errors'] += 1
        elif 'dir' in obs:
            stats['usable'] += 1
            if 'd' not in obs['dir']:
                stats['left_out_quietly'] += 1
        if diffs:
            problems.append({'stack': stack, 'diffs': [[str(x)[:300] for x in d] for d in diffs[:3]],
                             'msg': f'a layer whose field reads another output of the same layer (Output annotation): {diffs[0][0]}: real {str(diffs[0][1])[:160]}, '
                                    f'reference {str(diffs[0][2])[:160]}'})
    return stats, problems


def run_mixin_policy(seed):
    """a `Mixin` that carries the inheritance policy (`__inherit__` as True / names / a string, `__exclude__`), a private parameter or a field of
    the Transforms using it: the layer behaves exactly like one that declares the same names in its own body (C02)"""
    from .paths import use_repo
    use_repo()
    rng = random.Random(seed)
    policy = rng.choice(["__inherit__ = True", "__inherit__ = ('b', 'c')", "__inherit__ = 'b'", "__exclude__ = 'c'", "__exclude__ = ('b', 'c')"])
    extra = rng.choice(["", "def _k(a):\n        return ('k', a)", "def e(b):\n        return ('e', b)"])
    own = "def a(a, _k):\n        return ('A', a, _k)" if '_k' in extra else "def a(a):\n        return ('A', a)"
    src = f'''
from connectome import Mixin, Source, Transform, meta
class DS(Source):
    @meta
    def ids():
        return ('i1', 'i2')
    def a(i):
        return ('a', i)
    def b(i):
        return ('b', i)
    def c(i):
        return ('c', i)
class M(Mixin):
    {policy}
    {extra}
class WithMixin(Transform, M):
    {own}
class Own(Transform):
    {policy}
    {extra}
    {own}
'''
    ns = {}
    problems = []
    try:
        exec(src, ns)

        def look(layer):
            p = ns['DS']() >> layer
            out = {'dir': sorted(n for n in dir(p) if not n.startswith('_'))}
            for n in ('a', 'b', 'c', 'e'):
                try:
                    out[n] = repr(getattr(p, n)('i1'))
                except Exception as e:
                    out[n] = 'ERR ' + type(e).__name__
            return out
        a, b = look(ns['WithMixin']()), look(ns['Own']())
        if a != b:
            problems.append({'policy': policy, 'msg': f'a Transform taking `{policy}`{" and a parameter/field" if extra else ""} from a Mixin: {a}, the same names in its own body: {b}'})
    except Exception as e:
        problems.append({'policy': policy, 'msg': f'mixin scenario ({policy}) raised {type(e).__name__}: {str(e)[:150]}'})
    return problems
