"""Generator of engine-level graphs (abstract descriptions shared by the real adapter and the Lean model)."""
import random

IDS = ['a', 'b', 'c', 'd']


def rand_const(rng):
    return rng.choice([0, 1, 2, 'a', 'b', 'k', None, [1, 'a'], [], ['a', 'b'], '', False, -1, -2, 'x0', 'x0', 'x1',
                       {'app': ['$path', ['a'], [], []]}, {'app': ['$bytes', ['a'], [], []]}])   # incl. the NAMES of inputs; a path / bytes spelling 'a'


def gen_graph(rng: random.Random, max_nodes=18, malformed=0.03, kinds=None, unique_fns=False):
    """Returns a case: {"nodes": [...], "inputs": [...], "stores": [...], "impure": [...]}.
    Node: {"name", "edge": None | {...}, "parents": [...]}; parents precede children."""
    n_inputs = rng.randint(1, 3)
    nodes = [{'name': f'x{i}', 'edge': None, 'parents': []} for i in range(n_inputs)]
    inputs = list(range(n_inputs))
    stores = []
    impure = []
    n_fns = rng.randint(1, 5)
    fns = [f'f{i}' for i in range(n_fns)]
    const_fns = []
    if rng.random() < 0.3:
        # a user function with a falsy constant result (symbolic terms are never falsy)
        const_fns.append([fns[-1], rng.choice([None, 0, '', [], False])])
    n_imp = rng.choice([0, 0, 1, 2])
    imps = [f'r{i}' for i in range(n_imp)]
    impure.extend(imps)
    weights = kinds or {
        'fn': 10, 'ident': 2, 'const': 2, 'product': 2, 'cache': 3, 'barrier': 2, 'byvalue': 2, 'impure': 2,
        'switch': 2, 'switch_branch': 1, 'switch_missing': 1, 'check_ids': 1,
    }
    share = rng.choice([0.2, 0.5, 0.8])
    total = rng.randint(1, max_nodes)

    def pick(k):
        """k parents among existing nodes; with probability `share` prefer recent/shared ones"""
        out = []
        # dictionaries (the join mappings) are unhashable: they never feed anything but their switch
        ok = [i for i, n in enumerate(nodes) if not n['name'].startswith('m')]
        for _ in range(k):
            if out and rng.random() < share * 0.5:
                out.append(rng.choice(out))  # repeated parent f(x, x)
            elif rng.random() < 0.75:
                out.append(rng.choice(ok[-5:]))
            else:
                out.append(rng.choice(ok))
        return out

    def fn_edge(pool):
        arity = rng.choice([0, 1, 1, 2, 2, 3, 4])
        nkw = rng.choice([0, 0, 0, 1, 2])
        nkw = min(nkw, arity)
        kw = sorted(rng.sample(['a', 'b', 'c', 'd'], nkw))
        silent = sorted(rng.sample(range(arity), rng.choice([0, 0, 0, 1]) if arity else 0)) if arity else []
        f = rng.choice(pool)
        if unique_fns:
            f = f'{f}_{len(nodes)}'
            if pool is imps:
                impure.append(f)
        return {'k': 'fn', 'f': f, 'kw': kw, 'silent': silent}, arity

    def add(name, edge, parents):
        nodes.append({'name': name, 'edge': edge, 'parents': parents})
        return len(nodes) - 1

    def mapping_const():
        keys = IDS
        part = {k: rng.choice('iiillrrx') for k in keys}
        inner = {k: [k + 'L', k + 'R'] for k in keys if part[k] == 'i'}
        left = {k: k + 'L' for k in keys if part[k] == 'l'}
        right = {k: k + 'R' for k in keys if part[k] == 'r'}

        def d(x):
            return {'d': [list(x), list(x.values())]}
        return [d(inner), d(left), d(right)]

    kinds_list = list(weights)
    for i in range(total):
        kind = rng.choices(kinds_list, [weights[k] for k in kinds_list])[0]
        name = f'n{len(nodes)}'
        if kind == 'fn':
            e, arity = fn_edge(fns)
            add(name, e, pick(arity))
        elif kind == 'ident':
            add(name, {'k': 'ident'}, pick(1))
        elif kind == 'const':
            add(name, {'k': 'const', 'v': rand_const(rng)}, [])
        elif kind == 'product':
            add(name, {'k': 'product'}, pick(rng.randint(0, 3)))
        elif kind == 'cache':
            if stores and rng.random() < 0.3:
                s = rng.randrange(len(stores))
            else:
                stores.append(rng.choice([None, None, 1, 2, 3]))
                s = len(stores) - 1
            add(name, {'k': 'cache', 'store': s}, pick(1))
        elif kind == 'barrier':
            add(name, {'k': 'barrier'}, pick(1))
        elif kind == 'byvalue':
            e, arity = fn_edge(fns)
            add(name, {'k': 'byvalue', 'inner': e}, pick(arity))
        elif kind == 'impure':
            e, arity = fn_edge(imps or fns)
            add(name, {'k': 'impure', 'inner': e}, pick(arity))
        elif kind == 'switch':
            nb = rng.randint(1, 3)
            keys = IDS if rng.random() < 0.7 else rng.sample(IDS, rng.randint(1, len(IDS)))
            table = sorted([[k, rng.randrange(nb)] for k in keys])
            key = rng.choice(inputs)
            add(name, {'k': 'switch', 'table': table}, [key] + pick(nb))
        elif kind in ('switch_branch', 'switch_missing'):
            m = add(f'm{len(nodes)}', {'k': 'const', 'v': mapping_const()}, [])
            key = rng.choice(inputs)
            if kind == 'switch_branch':
                add(f'n{len(nodes)}', {'k': 'switch_branch'}, [key, m] + pick(2))
            else:
                add(f'n{len(nodes)}', {'k': 'switch_missing', 'index': rng.randrange(2)}, [key, m] + pick(1))
        elif kind == 'check_ids':
            ids = add(f'i{len(nodes)}', {'k': 'const', 'v': sorted(rng.sample(IDS, rng.choice([4, 4, 3, 2, 0])))}, [])
            add(f'n{len(nodes)}', {'k': 'check_ids'}, [rng.choice(inputs), ids])
    declared = list(inputs)
    if rng.random() < malformed and len(nodes) > n_inputs:
        # a leaf that is not declared as an input (rejected by validate_graph when reachable)
        declared = declared[:-1] if len(declared) > 1 else declared
    if unique_fns:
        const_fns = [[n['edge']['f'], v] for n in nodes for c, v in const_fns
                     if n['edge'] and n['edge'].get('k') == 'fn' and n['edge']['f'].startswith(c + '_')]
    return {'nodes': nodes, 'inputs': declared, 'stores': stores, 'impure': impure, 'const_fns': const_fns}


def gen_steps(rng, case, n_calls=None):
    nodes = case['nodes']
    n_in = sum(1 for n in nodes if n['edge'] is None)
    outs = [i for i, n in enumerate(nodes) if n['edge'] is not None and not n['name'].startswith('m')] or [0]
    n_calls = n_calls or rng.choice([1, 2, 3, 5])
    steps = []
    for _ in range(n_calls):
        out = rng.choice(outs[-2:]) if rng.random() < 0.8 else rng.choice(outs)
        env = {f'x{i}': rng.choice(IDS + IDS + ['z']) if rng.random() < 0.88 else rng.choice([0, 1, 2, None, '', -1, -2, 2305843009213693950, []]) for i in range(n_in)}
        for k in env:
            # an id given as a path or as bytes: not the string that spells it (another key, another value)
            if isinstance(env[k], str) and env[k] and rng.random() < 0.08:
                env[k] = {'app': [rng.choice(['$path', '$bytes']), [env[k]], [], []]}
        r = rng.random()
        if r < 0.75:
            st = {'t': 'call', 'out': out, 'env': env}
            if rng.random() < 0.12:
                st['fail_at'] = [rng.randrange(4)]
            elif rng.random() < 0.15 and not case.get('impure') and not case.get('stores'):
                # (graphs without cache edges only: with caches the two forms may leave different entries behind, and the rest of the
                # history would legitimately differ from the model's)
                st['two_phase'] = True      # real side: get_hash, then get_value from its state (the model: one call)
            steps.append(st)
        elif r < 0.9:
            steps.append({'t': 'hash', 'out': out, 'env': env})
        elif r < 0.95:
            steps.append({'t': 'hash_graph', 'out': out})
        elif case['stores']:
            steps.append({'t': 'clear', 'store': rng.randrange(len(case['stores']))})
    if not steps:
        steps.append({'t': 'call', 'out': outs[-1], 'env': {f'x{i}': 'a' for i in range(n_in)}})
    return steps


def reachable(case, out):
    nodes = case['nodes']
    seen = set()
    stack = [out]
    while stack:
        n = stack.pop()
        if n in seen:
            continue
        seen.add(n)
        if n in case['inputs']:
            continue
        stack.extend(nodes[n]['parents'])
    return seen


def shape_stats(case, out):
    """(reachable non-leaf nodes, nodes with >= 2 reachable parent occurrences, kinds)"""
    nodes = case['nodes']
    seen = reachable(case, out)
    occ = {}
    for n in seen:
        if n in case['inputs']:
            continue
        for p in nodes[n]['parents']:
            occ[p] = occ.get(p, 0) + 1
    shared = sum(1 for p, c in occ.items() if c >= 2)
    kinds = sorted({nodes[n]['edge']['k'] for n in seen if nodes[n]['edge'] is not None})
    inner = sum(1 for n in seen if nodes[n]['edge'] is not None)
    return inner, shared, kinds
