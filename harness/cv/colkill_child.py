"""child of S-CRASH/columns-kills: one process that generates / reads a CacheColumns shard and may die (os._exit) at a given entry"""
import json, os, sys


def main(root, n, shard):
    from cv import paths
    paths.use_repo()
    from tarn import HashKeyStorage
    from connectome import CacheColumns, Source, meta
    from connectome.serializers import JsonSerializer

    class DS(Source):
        @meta
        def ids():
            return tuple(range(n))

        def x(i):
            if os.environ.get('CV_DIE_AT') == str(i):
                os._exit(17)             # a real death: no handler runs
            return 3 * i + 1
    ds = DS() >> CacheColumns(os.path.join(root, 'index'), HashKeyStorage(os.path.join(root, 'storage')), JsonSerializer(), 'x',
                              shard_size=shard)
    print('VALUES ' + json.dumps([ds.x(i) for i in range(n)]))


if __name__ == '__main__':
    sys.path.insert(0, os.path.dirname(os.path.dirname(os.path.abspath(__file__))))
    main(sys.argv[1], int(sys.argv[2]), None if sys.argv[3] == 'None' else int(sys.argv[3]))
