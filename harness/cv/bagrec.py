"""Recorder for the node-level container machinery: wraps `connect_bags`, `normalize_bag`, `EdgesBag.loopback`,
`function_to_bag` and `GraphCompiler._validate_optionals` of the REAL code, converts the bags that go in and come out to
the JSON the Lean model `CM.Model.Bag` reads, and canonicalises bags up to the identities of their nodes.

The wrappers only observe: arguments are converted before the call, results after it, exceptions are re-raised."""
import contextlib, hashlib, json
from . import paths


class Recorder:
    def __init__(self, limit_edges=400):
        self.records = []
        self.edge_tags = {}     # id(edge object) -> tag
        self.keep = []          # keep observed objects alive: ids are keys
        self.limit_edges = limit_edges
        self.skipped = 0
        self.depth = 0

    # ---- conversion
    def tag(self, edge):
        from connectome.engine import IdentityEdge
        if type(edge) is IdentityEdge:
            return {'k': 'ident'}
        t = self.edge_tags.get(id(edge))
        if t is None:
            t = self.edge_tags[id(edge)] = f'{type(edge).__name__}#{len(self.edge_tags)}'
            self.keep.append(edge)
        return {'k': 'fn', 'f': t}

    def nameset(self, s):
        from connectome.utils import AntiSet
        if isinstance(s, AntiSet):
            return {'cofin': sorted(s.excluded)}
        return {'fin': sorted(s)}

    def bag_parts(self, inputs, outputs, edges, virtual, persistent, optional, context, ids=None):
        ids = {} if ids is None else ids

        def nid(n):
            k = id(n)
            if k not in ids:
                ids[k] = len(ids)
                self.keep.append(n)
            return [ids[k], n.name]
        d = {'inputs': [nid(n) for n in inputs], 'outputs': [nid(n) for n in outputs],
             'edges': [{'e': self.tag(e.edge), 'ins': [nid(i) for i in e.inputs], 'out': nid(e.output)} for e in edges],
             'virt': self.nameset(virtual), 'persistent': sorted(persistent), 'optional': [nid(n) for n in optional],
             'ctx': self.ctx(context, nid)}
        d['next'] = len(ids)
        return d

    def bag(self, b):
        return self.bag_parts(b.inputs, b.outputs, b.edges, b.virtual, b.persistent, b.optional, b.context)

    def ctx(self, c, nid):
        from connectome.containers.context import NoContext, IdentityContext, BagContext, ChainContext
        if c is None or type(c) is NoContext:
            return {'k': 'no'}
        if type(c) is IdentityContext:
            return {'k': 'ident'}
        if type(c) is BagContext:
            return {'k': 'bag', 'inputs': [nid(n) for n in c.inputs], 'outputs': [nid(n) for n in c.outputs],
                    'inherit': self.nameset(c.inherit)}
        if type(c) is ChainContext:
            return {'k': 'chain', 'previous': self.ctx(c.previous, nid), 'current': self.ctx(c.current, nid)}
        raise Unsupported(type(c).__name__)

    def add(self, rec):
        self.records.append(rec)

    # ---- installation
    @contextlib.contextmanager
    def installed(self):
        paths.use_repo()
        import connectome.containers.base as cb
        import connectome.containers.reversible as cr
        import connectome.layers.chain as lc
        import connectome.engine.compiler as ec
        rec = self
        orig_connect, orig_norm, orig_loop, orig_validate, orig_compile = \
            cb.connect_bags, cb.normalize_bag, cb.EdgesBag.loopback, ec.GraphCompiler._validate_optionals, cb.EdgesBag.compile

        def connect_bags(left, right, freeze=True):
            if not freeze or rec.depth:
                return orig_connect(left, right, freeze)
            try:
                if len(left.edges) + len(right.edges) > rec.limit_edges:
                    raise Unsupported('large')
                jl, jr = rec.bag(left), rec.bag(right)
            except Unsupported:
                rec.skipped += 1
                return orig_connect(left, right, freeze)
            rec.depth += 1
            try:
                res = orig_connect(left, right, freeze)
            except Exception as e:
                rec.add({'t': 'connect', 'left': jl, 'right': jr, 'real': {'err': type(e).__name__}})
                raise
            finally:
                rec.depth -= 1
            try:
                r = {'t': 'connect', 'left': jl, 'right': jr, 'real': {'ok': rec.bag(res)}}
                # composing never changes its operands: both bags must look exactly as before the call
                al, ar = rec.bag(left), rec.bag(right)
                if al != jl or ar != jr:
                    which, before, after = ('left', jl, al) if al != jl else ('right', jr, ar)
                    keys = [k for k in before if before[k] != after[k]]
                    r['mutated'] = {'operand': which, 'fields': keys, 'before': {k: before[k] for k in keys[:2]},
                                    'after': {k: after[k] for k in keys[:2]}}
                rec.add(r)
            except Unsupported:
                rec.skipped += 1
            return res

        def normalize_bag(inputs, outputs, edges, virtuals, optionals, persistent_nodes, allow_missing_inputs=True):
            if rec.depth or not allow_missing_inputs:
                return orig_norm(inputs, outputs, edges, virtuals, optionals, persistent_nodes, allow_missing_inputs)
            inputs, outputs, edges, optionals = tuple(inputs), tuple(outputs), tuple(edges), set(optionals)
            ids = {}
            try:
                if len(edges) > rec.limit_edges:
                    raise Unsupported('large')
                arg = rec.bag_parts(inputs, outputs, edges, virtuals, persistent_nodes, optionals, None, ids)
            except Unsupported:
                rec.skipped += 1
                return orig_norm(inputs, outputs, edges, virtuals, optionals, persistent_nodes, allow_missing_inputs)
            rec.depth += 1
            try:
                res = orig_norm(inputs, outputs, edges, virtuals, optionals, persistent_nodes, allow_missing_inputs)
            except Exception as e:
                rec.add({'t': 'make', 'bag': arg, 'real': {'err': type(e).__name__}})
                raise
            finally:
                rec.depth -= 1
            ri, ro, re_, rv = res
            rec.add({'t': 'make', 'bag': arg,
                     'real': {'ok': rec.bag_parts(ri, ro, re_, rv, persistent_nodes, optionals, None, dict(ids))}})
            return res

        def loopback(self_bag, func, inputs, output):
            if rec.depth:
                return orig_loop(self_bag, func, inputs, output)
            try:
                jb = rec.bag(self_bag)
                rec.depth += 1
                try:
                    fb = cb.function_to_bag(func, inputs, output)
                finally:
                    rec.depth -= 1
                jf = rec.bag(fb)
            except Unsupported:
                rec.skipped += 1
                return orig_loop(self_bag, func, inputs, output)
            except Exception:
                return orig_loop(self_bag, func, inputs, output)
            # the model is given a function bag whose function edge carries the tag of the edge the real call will create:
            # the real call builds its own function bag (another FunctionEdge object), so tags of `fn` edges created inside
            # are mapped by position below (canonicalisation ignores the tags of edges that are not shared with the inputs)
            rec.depth += 1
            try:
                res = orig_loop(self_bag, func, inputs, output)
            except Exception as e:
                rec.add({'t': 'loopback', 'bag': jb, 'fbag': jf, 'real': {'err': type(e).__name__}})
                raise
            finally:
                rec.depth -= 1
            try:
                rec.add({'t': 'loopback', 'bag': jb, 'fbag': jf, 'real': {'ok': rec.bag(res)}, 'fresh_tags': True})
            except Unsupported:
                rec.skipped += 1
            return res

        def compile_(self_bag):
            gc = orig_compile(self_bag)
            gc._cv_bag = self_bag
            return gc

        def validate(gc):
            bag = getattr(gc, '_cv_bag', None)
            try:
                orig_validate(gc)
            except Exception as e:
                if bag is not None and not rec.depth:
                    try:
                        rec.add({'t': 'compile', 'bag': rec.bag(bag), 'names': [], 'real': {'err': type(e).__name__}})
                    except Unsupported:
                        rec.skipped += 1
                raise
            if bag is not None and not rec.depth:
                try:
                    names = sorted({n.name for n in bag.outputs} | {n.name for n in bag.inputs} | {'zz#undefined'})
                    got = []
                    for name in names:
                        try:
                            g = gc._compile(name)
                            got.append('identity' if g is ec.identity else 'node')
                        except Exception as e:
                            got.append(type(e).__name__)
                    rec.add({'t': 'compile', 'bag': rec.bag(bag), 'names': names,
                             'real': {'fields': sorted(gc._outputs), 'get': got}})
                except Unsupported:
                    rec.skipped += 1

        cb.connect_bags = lc.connect_bags = connect_bags
        cb.normalize_bag = cr.normalize_bag = normalize_bag
        cb.EdgesBag.loopback = loopback
        cb.EdgesBag.compile = compile_
        ec.GraphCompiler._validate_optionals = validate
        try:
            yield self
        finally:
            cb.connect_bags = lc.connect_bags = orig_connect
            cb.normalize_bag = cr.normalize_bag = orig_norm
            cb.EdgesBag.loopback = orig_loop
            cb.EdgesBag.compile = orig_compile
            ec.GraphCompiler._validate_optionals = orig_validate


class Unsupported(Exception):
    pass


# ---------------------------------------------------------------- canonical forms (up to node identities)

def canon_bag(b, ignore_tags=frozenset()):
    """a bag (JSON form, real or model) up to the identities of its nodes: every node is replaced by the hash of the
    sub-DAG below it (name, whether it is an input, the edge tag, the parents in order)"""
    incoming = {}
    multi = False
    for e in b['edges']:
        k = e['out'][0]
        if k in incoming:
            multi = True
        incoming[k] = e
    inputs = {n[0] for n in b['inputs']}
    memo, onstack = {}, set()

    def etag(e):
        t = e['e']
        if t['k'] == 'ident':
            return 'ident'
        f = t.get('f', t['k'])
        return 'FRESH:' + f.split('#')[0] if f in ignore_tags else f

    def sig(n):
        k = n[0]
        if k in memo:
            return memo[k]
        if k in onstack:
            return 'CYCLE'
        onstack.add(k)
        e = incoming.get(k)
        if e is None:
            s = ('leaf', n[1], k in inputs)
        else:
            s = ('node', n[1], k in inputs, etag(e), [sig(i) for i in e['ins']])
        onstack.discard(k)
        memo[k] = hashlib.sha1(json.dumps(s).encode()).hexdigest()[:16]
        return memo[k]
    ns = lambda s: {'fin': sorted(s['fin'])} if 'fin' in s else {'cofin': sorted(s['cofin'])}

    def cctx(c):
        if c['k'] in ('no', 'ident'):
            return c['k']
        if c['k'] == 'bag':
            return ['bag', sorted([n[1], sig(n)] for n in c['inputs']), sorted([n[1], sig(n)] for n in c['outputs']), ns(c['inherit'])]
        return ['chain', cctx(c['previous']), cctx(c['current'])]
    return {'inputs': sorted([n[1], sig(n)] for n in b['inputs']), 'outputs': sorted([n[1], sig(n)] for n in b['outputs']),
            'edges': sorted([etag(e), [sig(i) for i in e['ins']], sig(e['out'])] for e in b['edges']),
            'virt': ns(b['virt']), 'persistent': sorted(b['persistent']),
            'optional': sorted([n[1], sig(n)] for n in b['optional']), 'ctx': cctx(b['ctx']), 'multi': multi}


def tags_of(b):
    return {e['e'].get('f') for e in b['edges'] if e['e']['k'] != 'ident'}


def compare(rec, ans):
    """-> None or a description of the difference between what the real code did and what the model did"""
    real = rec['real']
    t = rec['t']
    if rec.get('mutated'):
        m = rec['mutated']
        return {'what': f'connect_bags changed its {m["operand"]} operand ({", ".join(m["fields"])})', 'before': m['before'], 'after': m['after'],
                'oracle': True}
    if t == 'compile':
        if 'err' in real or 'err' in ans:
            return None if real.get('err') == ans.get('err') else {'real': real.get('err', 'ok'), 'model': ans.get('err', 'ok')}
        if sorted(real['fields']) != sorted(ans['fields']):
            return {'what': 'fields', 'real': sorted(real['fields']), 'model': sorted(ans['fields'])}
        got = []
        for g in ans['get']:
            got.append('node' if ('node' in g or 'input' in g) else 'identity' if 'identity' in g else g.get('err'))
        if got != real['get']:
            bad = [(n, r, m) for n, r, m in zip(rec['names'], real['get'], got) if r != m]
            return {'what': 'get_node', 'diff': bad[:4]}
        return None
    if 'err' in real or 'err' in ans:
        return None if real.get('err') == ans.get('err') else {'real': real.get('err', 'ok'), 'model': ans.get('err', 'ok'),
                                                               'rule': ans.get('rule')}
    # edges created inside the real call (not present in the inputs) carry tags the model cannot know
    known = set()
    for k in ('left', 'right', 'bag', 'fbag'):
        if k in rec:
            known |= tags_of(rec[k])
    fresh_real = tags_of(real['ok']) - known
    fresh_model = tags_of(ans['ok']) - known if rec.get('fresh_tags') else set()
    # in a loopback the model uses the tags of the function bag it was given, the real call those of its own function bag
    ig_model = (tags_of(rec['fbag']) if rec.get('fresh_tags') else set()) | fresh_model
    a, m = canon_bag(real['ok'], fresh_real), canon_bag(ans['ok'], ig_model)
    if a != m:
        keys = [k for k in a if a[k] != m[k]]
        return {'what': keys, 'real': {k: a[k] for k in keys[:2]}, 'model': {k: m[k] for k in keys[:2]}}
    return None
