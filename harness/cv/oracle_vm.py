"""Direct oracle for C01/C03 on engine-level graphs, written from the property text: evaluate the user
functions recursively in dependency order.  Independent of the Lean model and of vm.py."""
from .real_vm import json_to_py
from .sym import App, Imp


class OErr(Exception):
    def __init__(self, kinds):
        self.kinds = set(kinds)


def py_in(key, coll):
    return any(key == k for k in coll)


class Oracle:
    def __init__(self, case, env):
        self.case, self.env = case, env
        self.nodes = case['nodes']
        self.fns = set()       # user functions needed (ignoring caches)

    def value(self, n):
        nodes = self.nodes
        nd = nodes[n]
        if n in self.case['inputs'] or nd['edge'] is None:
            if n not in self.case['inputs']:
                raise OErr({'AssertionError'})
            return json_to_py(self.env[nd['name']])
        return self.edge_value(n, nd['edge'], nd['parents'])

    def all_values(self, ps):
        vals, errs = [], set()
        for p in ps:
            try:
                vals.append(self.value(p))
            except OErr as e:
                errs |= e.kinds
        if errs:
            raise OErr(errs)
        return vals

    def edge_value(self, n, e, ps):
        k = e['k']
        if k == 'fn':
            vals = self.all_values(ps)
            kw = e.get('kw', [])
            npos = len(vals) - len(kw)
            self.fns.add(e['f'])
            kwt = tuple(sorted(zip(kw, vals[npos:])))
            for name, v in self.case.get('const_fns', []):
                if name == e['f']:
                    return json_to_py(v)
            if e['f'] in self.case.get('impure', []):
                return Imp(e['f'], n, tuple(vals[:npos]), kwt)
            return App(e['f'], tuple(vals[:npos]), kwt)
        if k in ('byvalue', 'impure'):
            return self.edge_value(n, e['inner'], ps)
        if k in ('ident', 'cache', 'barrier'):
            return self.value(ps[0])
        if k == 'const':
            return json_to_py(e['v'])
        if k == 'product':
            return tuple(self.all_values(ps))
        if k == 'switch':
            key = self.value(ps[0])
            table = {json_to_py(a): b for a, b in e['table']}
            if key not in table:
                raise OErr({'ValueError'})
            return self.value(ps[1 + table[key]])
        if k == 'switch_branch':
            key, (inner, left, right) = self.all_values(ps[:2])
            if key in inner or key in left:
                return self.value(ps[2])
            if key in right:
                return self.value(ps[3])
            raise OErr({'KeyError'})
        if k == 'switch_missing':
            key, (inner, left, right) = self.all_values(ps[:2])
            this, other = (left, right) if e['index'] == 0 else (right, left)
            if key in inner or key in this:
                return self.value(ps[2])
            if key in other:
                return None
            raise OErr({'KeyError'})
        if k == 'check_ids':
            i, ids = self.all_values(ps)
            if i in ids:
                return i
            raise OErr({'KeyError'})
        raise ValueError(k)


def has_silent_or_cache(case, reach):
    def sil(e):
        return bool(e) and (bool(e.get('silent')) or sil(e.get('inner')))
    nodes = case['nodes']
    return any(sil(nodes[n]['edge']) for n in reach), any((nodes[n]['edge'] or {}).get('k') == 'cache' for n in reach)


def check_call(case, st, real, world_json):
    """C01 on one call: returns None if fine, else a text.  `real` is RealVM.step's answer."""
    from .codec import val_to_json, canon
    from .gen_vm import reachable
    if st['t'] != 'call':
        return None
    o = Oracle(case, st['env'])
    reach = reachable(case, st['out'])
    bad_leaf = any(case['nodes'][n]['edge'] is None and n not in case['inputs'] for n in reach)
    if not real.get('valid', True):
        return None if bad_leaf else 'Graph() rejected a well-formed graph'
    if bad_leaf:
        return 'Graph() accepted a graph with a leaf that is not an input'
    r = real['r']
    try:
        v = o.value(st['out'])
        expected = ('ok', v)
    except OErr as e:
        expected = ('err', e.kinds)
    faults = bool(st.get('fail_at'))
    if 'err' in r:
        e = r['err']
        if e.startswith('user:'):
            return None if faults else f'a user exception {e} without an injected fault'
        if expected[0] == 'err' and e in expected[1]:
            return None
        return f'raised {e}; the specification says {expected[0]}' + (f' {sorted(expected[1])}' if expected[0] == 'err' else '')
    # returned a value
    silent, cached = has_silent_or_cache(case, reach)
    if expected[0] == 'err':
        # a cache can hide an upstream error only if it holds a value under the same key although upstream raises now:
        # (a) the raising part is reached through a Silent argument (exempt by design: the key ignores it);
        # (b) CheckIds, which is hash-transparent, sits upstream of a cache shared with an evaluation that passed it (finding F10)
        if cached and silent:
            return None
        has_chk = any((case['nodes'][n]['edge'] or {}).get('k') == 'check_ids' for n in reach)
        if cached and has_chk and set(expected[1]) == {'KeyError'}:
            return 'HIDDEN-CHECKIDS: a cache hit returned a value although CheckIds upstream rejects the id (F10)'
        return f'returned a value where the specification raises {sorted(expected[1])}'
    want = canon(val_to_json(expected[1]))
    if canon(r['ok']) != want:
        if cached and (silent or case.get('impure')):
            return None  # a cache hit may legitimately return the value of an earlier call (Silent / impure=True)
        return f'returned {canon(r["ok"])[:300]} but composing the user functions gives {want[:300]}'
    return None


def check_calls_c03(case, st, real):
    """C03 on one call of a graph whose function nodes all carry distinct functions:
    every user function at most once; only needed functions; without caches and faults exactly the needed ones."""
    from .gen_vm import reachable
    if st['t'] != 'call' or not real.get('valid', True):
        return None
    names = [c[0] for c in real['log']]
    dup = sorted({n for n in names if names.count(n) > 1})
    if dup:
        return f'user functions executed more than once within one call: {dup}'
    o = Oracle(case, st['env'])
    try:
        o.value(st['out'])
        ok = True
    except OErr:
        ok = False
    extra = sorted(set(names) - o.fns)
    if extra and ok:
        return f'functions executed that the requested field does not need for this input: {extra}'
    reach = reachable(case, st['out'])
    _, cached = has_silent_or_cache(case, reach)
    if ok and not cached and not st.get('fail_at') and 'ok' in real['r']:
        missing = sorted(o.fns - set(names))
        if missing:
            return f'needed functions were not executed: {missing}'
    return None


def check_repeat_c03(case, steps, reals):
    """C03 across calls: upstream of a cache hit nothing is executed.  A call repeated with the same inputs whose output is a
    cache edge on an unbounded store returned a value before, no clear / fault in between, nothing upstream hashed by value
    (by-value, impure, barrier, switch edges execute while hashing): the repetition must execute no user function."""
    from .gen_vm import reachable
    BYVAL = ('byvalue', 'impure', 'barrier', 'switch', 'switch_branch', 'switch_missing')
    seen = {}
    for i, (st, r) in enumerate(zip(steps, reals)):
        if st['t'] == 'clear':
            seen.clear()
            continue
        if st['t'] != 'call' or not r.get('valid', True):
            continue
        e = case['nodes'][st['out']]['edge'] or {}
        if e.get('k') != 'cache' or case['stores'][e['store']] is not None or st.get('fail_at'):
            continue
        reach = reachable(case, st['out'])
        if any((case['nodes'][n]['edge'] or {}).get('k') in BYVAL for n in reach) or case.get('impure'):
            continue
        if any(isinstance(v, (list, dict)) for v in st['env'].values()):
            continue
        key = (st['out'], repr(sorted(st['env'].items())))
        if key in seen and 'ok' in r['r'] and r['log']:
            return i, f'a repeated call whose output is cached executed {sorted({c[0] for c in r["log"]})} upstream of the cache hit'
        if 'ok' in r['r']:
            seen[key] = i
    return None
