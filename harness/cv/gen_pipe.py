"""Generators of layer stacks (descriptions for pipeline.Builder / refsem / the Lean bag model)."""
import random

POOL = ['a', 'b', 'c', 'd', 'e', 'ab']      # 'ab': a name whose characters are names too


def gen_transform(rng, idx, pool=POOL, allow_params=True, allow_opt=True, avail=None, p_avail=0.85, p_opt=0.3, ghost=()):
    """`avail`: names the previous layers expose; arguments are mostly drawn from them (mostly-valid stacks)"""
    cls = f'T{idx}'
    n_out = rng.choice([0, 1, 1, 2, 2, 3])
    outs = rng.sample(pool, n_out)
    if rng.random() < 0.06:
        outs.append('id')      # a layer may redefine the key
    redefine = None
    if ghost and rng.random() < 0.3:
        # a field of the same name as one that was left out quietly, built on it (f(f)): a name collision with the hidden optional node
        redefine = rng.choice(sorted(ghost))
        if redefine not in outs:
            outs.append(redefine)
    full = pool
    if avail is not None and rng.random() < p_avail:
        pool = sorted(avail) or pool

    def sample(k):
        return rng.sample(pool, min(k, len(pool)))

    params = {}
    cargs, defaults = {}, {}
    if allow_params and rng.random() < 0.4:
        for p in rng.sample(['_p', '_q'], rng.choice([1, 1, 2])):
            args = sample(rng.choice([0, 1, 1, 2]))
            if p == '_q' and '_p' in params and rng.random() < 0.5:
                args.append('_p')
            params[p] = {'args': args}
    if allow_params and rng.random() < 0.25:
        if rng.random() < 0.5:
            defaults['k'] = rng.choice([0, 1, 'u', True])
            if rng.random() < 0.5:
                cargs['k'] = rng.choice([2, 'v', 1, True, False, 0])
        else:
            cargs['k'] = rng.choice([2, 'v'])
    fields = {}
    for o in outs:
        args = sample(rng.choice([0, 1, 1, 2, 2]))
        if o == redefine:
            args = [o]
        elif ghost and rng.random() < 0.2:
            # a field that an earlier layer defined and that was left out quietly since (optional, unreachable input)
            args = [rng.choice(sorted(ghost))] + [a for a in args[:1] if a not in ghost]
        if o == 'id':
            args = ['id'] + [a for a in args[:1] if a != 'id']
        for p in params:
            if rng.random() < 0.5:
                args.append(p)
        if (cargs or defaults) and rng.random() < 0.6:
            args.append('_k')
        spec = {'args': args}
        if allow_opt and rng.random() < p_opt and o != redefine:
            spec['opt'] = True
        if rng.random() < 0.08 and o != 'id':
            spec['meta'] = True       # a property of the layer: `layer.name` is the value, not a function
        fields[o] = spec
    r = rng.random()
    d = {'k': 'transform', 'cls': cls, 'fields': fields, 'params': params, 'cargs': cargs, 'defaults': defaults}
    if r < 0.3:
        d['inherit'] = True
    elif r < 0.55:
        cands = [x for x in full if x not in outs] if rng.random() < 0.93 else full
        d['inherit'] = rng.sample(cands, min(len(cands), rng.choice([1, 2, 3])))
        if not d['inherit']:
            del d['inherit']
    elif r < 0.7:
        d['exclude'] = rng.sample(full, rng.choice([1, 2]))
    # a single name may be written as a bare string: __inherit__ = 'ab', __exclude__ = 'ab'
    for key in ('inherit', 'exclude'):
        if isinstance(d.get(key), list) and len(d[key]) == 1 and rng.random() < 0.5:
            d[key + '_str'] = True
    if isinstance(d.get('inherit'), list) and not d.get('inherit_str') and rng.random() < 0.3:
        d['inherit_set'] = True        # written as a set object that is changed after the class statement
    return d


def gen_source(rng, idx, pool=POOL):
    cls = f'S{idx}'
    fields = {}
    for o in rng.sample(pool, rng.choice([1, 2, 3, 4])):
        fields[o] = {'args': ['i']}
    d = {'k': 'source', 'cls': cls, 'ids': ['i1', 'i2', 'i3'], 'fields': fields, 'params': {}, 'cargs': {}, 'defaults': {}}
    if rng.random() < 0.3:
        d['params']['_p'] = {'args': ['_k']}
        d['cargs']['k'] = rng.choice([1, 'w'])
        for o in list(fields)[:1]:
            fields[o]['args'].append('_p')
    return d


def gen_stack(rng, max_layers=6, source=None, caches=True, p_avail=0.85, p_opt=0.3):
    layers = []
    n = rng.randint(1, max_layers)
    if source is None:
        source = rng.random() < 0.6
    if source:
        layers.append(gen_source(rng, 0))
    from . import refsem
    for i in range(n):
        r = rng.random()
        avail = None
        defined = {f for l in layers for f in l.get('fields', {})}
        if layers:
            try:
                res = refsem.resolve({'k': 'chain', 'layers': layers})
                avail = set(res.get('dir', []))
                if not source and 'virt' in res:
                    avail |= {x for x in POOL if res['virt'](x)}
            except Exception:
                avail = None
        ghost = sorted(defined - avail) if avail is not None else ()
        prev_ghost = bool(layers) and any(a in defined and avail is not None and a not in avail
                                          for sp in layers[-1].get('fields', {}).values() for a in sp['args'])
        redefined = bool(layers) and any(sp['args'] == [f] and f in ghost for f, sp in layers[-1].get('fields', {}).items()) \
            if avail is not None else False
        if redefined and r < 0.7:
            # a layer that merely passes everything on, after a layer that re-defined a left-out name
            layers.append({'k': 'transform', 'cls': f'TP{i + 1}', 'fields': {}, 'params': {}, 'cargs': {}, 'defaults': {},
                           'inherit': rng.choice([True, True, sorted(defined)])})
        elif caches and layers and (r < 0.15 or (prev_ghost and r < 0.6)):
            layers.append({'k': 'ram', 'names': rng.choice([None, rng.sample(POOL, 2)]), 'size': rng.choice([None, 2])})
        elif r < 0.22:
            names = rng.sample(POOL, rng.choice([1, 2]))
            layers.append({'k': 'apply', 'fns': {nm: f'ap{i}.{nm}' for nm in names}})
        else:
            layers.append(gen_transform(rng, i + 1, avail=avail, p_avail=p_avail, p_opt=p_opt, ghost=ghost))
    return {'k': 'chain', 'flavour': 'chain', 'layers': layers}
