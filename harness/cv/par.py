"""Process pool helper (fork, 16 workers)."""
import multiprocessing as mp, os


# jobs of `pmap` that raised because the harness could not drive the code under test (an internal interface of /repo changed):
# (function name, traceback text).  The runner turns these into a correspondence violation; the other jobs' results are used.
DRIFT = []


class _Failed:
    def __init__(self, where, text, machinery):
        self.where, self.text, self.machinery = where, text, machinery


class _Guard:
    """picklable wrapper: a job that raises returns a `_Failed` record instead of aborting the whole check"""

    def __init__(self, fn):
        self.fn = fn

    def __call__(self, job):
        try:
            return self.fn(job)
        except Exception as e:
            import traceback
            from .driver import DriverError
            machinery = isinstance(e, (DriverError, MemoryError))
            return _Failed(getattr(self.fn, '__qualname__', str(self.fn)), traceback.format_exc()[-3000:], machinery)


def pmap(fn, jobs, workers=None):
    """results of the jobs that ran; a job that raised is recorded in DRIFT (and left out), unless the failure is the model driver's
    or the machine's, which is re-raised (exit 2)"""
    workers = workers or min(16, os.cpu_count() or 4, max(1, len(jobs)))
    g = _Guard(fn)
    if workers <= 1 or len(jobs) <= 1:
        outs = [g(j) for j in jobs]
    else:
        ctx = mp.get_context('fork')
        with ctx.Pool(workers) as pool:
            outs = pool.map(g, jobs, chunksize=1)
    good = []
    for o in outs:
        if isinstance(o, _Failed):
            if o.machinery:
                raise RuntimeError('machinery failure in ' + o.where + ':\n' + o.text)
            DRIFT.append((o.where, o.text))
        else:
            good.append(o)
    return good


def with_deadline(fn, arg, timeout=20):
    """run fn(arg) in a forked child; -> ('ok', JSON-able result) | ('timeout', None) | ('died', exit code).  A call that never
    returns cannot be interrupted inside the interpreter: the child is killed."""
    import json, select, signal, time
    r, w = os.pipe()
    pid = os.fork()
    if pid == 0:
        os.close(r)
        try:
            data = json.dumps(fn(arg)).encode()
            os.write(w, data)
        finally:
            os._exit(0)
    os.close(w)
    chunks, deadline, hung = [], time.monotonic() + timeout, False
    while True:
        left = deadline - time.monotonic()
        ready = select.select([r], [], [], max(0.0, left))[0] if left > 0 else []
        if not ready:
            hung = True
            try:
                os.kill(pid, signal.SIGKILL)
            except ProcessLookupError:
                pass
            break
        data = os.read(r, 1 << 16)
        if not data:
            break
        chunks.append(data)
    os.close(r)
    _, status = os.waitpid(pid, 0)
    if hung:
        return 'timeout', None
    raw = b''.join(chunks)
    if not raw:
        return 'died', os.waitstatus_to_exitcode(status)
    return 'ok', json.loads(raw.decode())


def soft(name, fn):
    """run one part of a property module; when it cannot be completed because jobs were lost to DRIFT, say so and go on with the
    parts that follow (they may still find a failing input).  Without DRIFT the exception is the machinery's own and is re-raised."""
    try:
        return fn()
    except Exception:
        if not DRIFT:
            raise
        import traceback
        DRIFT.append((name, traceback.format_exc()[-3000:]))
        return None
