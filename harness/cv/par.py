"""Process pool helper (fork, 16 workers)."""
import multiprocessing as mp, os


def pmap(fn, jobs, workers=None):
    workers = workers or min(16, os.cpu_count() or 4, max(1, len(jobs)))
    if workers <= 1 or len(jobs) <= 1:
        return [fn(j) for j in jobs]
    ctx = mp.get_context('fork')
    with ctx.Pool(workers) as pool:
        return pool.map(fn, jobs, chunksize=1)


def with_deadline(fn, arg, timeout=20):
    """run fn(arg) in a forked child; -> ('ok', JSON-able result) | ('timeout', None) | ('died', exit code).  A call that never
    returns cannot be interrupted inside the interpreter: the child is killed."""
    import json, select, signal, time
    r, w = os.pipe()
    pid = os.fork()
    if pid == 0:
        os.close(r)
        try:
            data = json.dumps(fn(arg)).encode()
            os.write(w, data)
        finally:
            os._exit(0)
    os.close(w)
    chunks, deadline, hung = [], time.monotonic() + timeout, False
    while True:
        left = deadline - time.monotonic()
        ready = select.select([r], [], [], max(0.0, left))[0] if left > 0 else []
        if not ready:
            hung = True
            try:
                os.kill(pid, signal.SIGKILL)
            except ProcessLookupError:
                pass
            break
        data = os.read(r, 1 << 16)
        if not data:
            break
        chunks.append(data)
    os.close(r)
    _, status = os.waitpid(pid, 0)
    if hung:
        return 'timeout', None
    raw = b''.join(chunks)
    if not raw:
        return 'died', os.waitstatus_to_exitcode(status)
    return 'ok', json.loads(raw.decode())
