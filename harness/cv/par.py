"""Process pool helper (fork, 16 workers)."""
import multiprocessing as mp, os


def pmap(fn, jobs, workers=None):
    workers = workers or min(16, os.cpu_count() or 4, max(1, len(jobs)))
    if workers <= 1 or len(jobs) <= 1:
        return [fn(j) for j in jobs]
    ctx = mp.get_context('fork')
    with ctx.Pool(workers) as pool:
        return pool.map(fn, jobs, chunksize=1)
