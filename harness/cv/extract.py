"""From a *real* compiled function (engine Graph of TreeNodes) to the description the Lean VM model runs: the
model input is regenerated from the object the public API produced, not written by hand."""
from . import paths
from .codec import val_to_json, atom_name


class Unsupported(Exception):
    pass


class Extractor:
    def __init__(self, world, stores=None):
        paths.use_repo()
        self.world = world
        self.nodes, self.index = [], {}
        self.stores = stores if stores is not None else []   # list of (storage object, size or None)
        self.impure_names = set()

    def store_index(self, storage):
        from connectome.cache import MemoryCache, DiskCache
        for i, (s, _) in enumerate(self.stores):
            if s is storage or (isinstance(s, DiskCache) and isinstance(storage, DiskCache) and same_disk(s, storage)):
                return i
        size = storage.size if isinstance(storage, MemoryCache) else None
        self.stores.append((storage, size))
        return len(self.stores) - 1

    def fname(self, f):
        n = atom_name(f, self.world)
        if n is None:
            raise Unsupported(f'function {f!r}')
        return n

    def edge(self, e):
        from connectome.engine import (FunctionEdge, IdentityEdge, ConstantEdge, ProductEdge, CacheEdge, HashBarrier,
                                       ComputableHashEdge, ImpureEdge)
        from connectome.layers.merge import SwitchEdge
        from connectome.layers.join import SwitchBranch, SwitchMissing
        from connectome.layers.check_ids import CheckIdsEdge
        t = type(e)
        if t is FunctionEdge:
            return {'k': 'fn', 'f': self.fname(e.function), 'kw': list(e.kw_names), 'silent': list(e.silent)}
        if t is IdentityEdge:
            return {'k': 'ident'}
        if t is ConstantEdge:
            return {'k': 'const', 'v': val_to_json(e.value, self.world)}
        if t is ProductEdge:
            return {'k': 'product'}
        if t is CacheEdge:
            return {'k': 'cache', 'store': self.store_index(e.cache)}
        if t is HashBarrier:
            return {'k': 'barrier'}
        if t is ComputableHashEdge:
            return {'k': 'byvalue', 'inner': self.edge(e.edge)}
        if t is ImpureEdge:
            return {'k': 'impure', 'inner': self.edge(e.edge)}
        if t is SwitchEdge:
            return {'k': 'switch', 'table': sorted([val_to_json(k, self.world), v] for k, v in e.id_to_index.items())}
        if t is SwitchBranch:
            return {'k': 'switch_branch'}
        if t is SwitchMissing:
            return {'k': 'switch_missing', 'index': e.index}
        if t is CheckIdsEdge:
            return {'k': 'check_ids'}
        raise Unsupported(t.__name__)

    def visit(self, node):
        if id(node) in self.index:
            return self.index[id(node)]
        if node.is_leaf:
            self.nodes.append({'name': node.name, 'edge': None, 'parents': []})
        else:
            parents = [self.visit(p) for p in node.parents]
            self.nodes.append({'name': node.name, 'edge': self.edge(node.edge), 'parents': parents})
        self.index[id(node)] = len(self.nodes) - 1
        self._keep = getattr(self, '_keep', [])
        self._keep.append(node)    # keep the object alive: ids are used as keys
        return self.index[id(node)]

    def graph(self, g):
        """-> (out index, input indices) of a real `Graph`"""
        out = self.visit(g.output)
        inputs = [self.visit(n) for n in g.inputs]
        return out, inputs

    def case(self, inputs):
        return {'nodes': self.nodes, 'inputs': sorted(set(inputs)), 'stores': [size for _, size in self.stores],
                'impure': sorted(self.world.impure), 'const_fns': [[n, val_to_json(v, self.world)] for n, v in self.world.consts.items()]}


def disk_root(d):
    idx = d.cache.index
    if isinstance(idx, (list, tuple)):
        idx = idx[0]
    return str(getattr(idx, 'root', idx))


def same_disk(a, b):
    try:
        return a.cache is b.cache or disk_root(a) == disk_root(b)
    except Exception:
        return False
