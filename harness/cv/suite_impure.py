"""S-IMPURE: (1) `_detect_impure` of the real cache layers on random engine graphs against CM.Model.Impure;
(2) layer stacks with @impure fields / private parameters under cache layers (with and without impure=True), Filter,
GroupBy and CacheColumns, through inheritance, nested chains and Merge branches: building must be rejected exactly when
an impure function is upstream of what the layer caches or keys."""
import json, os, random, shutil, tempfile
from . import driver, paths, refsem
from .gen_vm import gen_graph
from .real_vm import RealVM
from .pipeline import Builder
from .sym import SymWorld
from .codec import exc_name


def run_engine_shard(args):
    seed, n = args
    paths.use_repo()
    from connectome.layers.cache import CacheLayer
    reqs, reals, cases = [], [], []
    for c in range(n):
        rng = random.Random(seed * 40503 + c)
        kinds = {'fn': 8, 'ident': 2, 'const': 1, 'product': 2, 'cache': 3, 'barrier': 2, 'byvalue': 2, 'impure': 2,
                 'switch': 2, 'switch_branch': 1, 'switch_missing': 1, 'check_ids': 1}
        case = gen_graph(rng, max_nodes=16, malformed=0.0, kinds=kinds)
        vm = RealVM(case)
        steps, real = [], []
        for i, nd in enumerate(case['nodes']):
            steps.append({'t': 'detect_impure', 'out': i})
            try:
                CacheLayer._detect_impure(vm.nodes[i], nd['name'])
                real.append(False)
            except ValueError:
                real.append(True)
        reqs.append({'op': 'vm', 'nodes': case['nodes'], 'inputs': case['inputs'], 'stores': case['stores'],
                     'impure': case['impure'], 'steps': steps})
        reals.append(real)
        cases.append(case)
    answers = driver.run_lines(reqs)
    bad = []
    stats = {'graphs': n, 'nodes': 0, 'impure_nodes': 0}
    for case, real, ans in zip(cases, reals, answers):
        if 'error' in ans:
            bad.append({'case': case, 'diff': ans['error']})
            continue
        model = [r['impure'] for r in ans['results']]
        stats['nodes'] += len(real)
        stats['impure_nodes'] += sum(real)
        if model != real:
            # direct oracle: reachability over the description
            bad.append({'case': case, 'real': real, 'model': model, 'oracle': [reach_impure(case, i) for i in range(len(real))]})
    return stats, bad


def reach_impure(case, n, seen=None):
    nd = case['nodes'][n]
    if nd['edge'] is None:
        return False
    if nd['edge']['k'] == 'impure':
        return True
    return any(reach_impure(case, p) for p in nd['parents'])


# ---------------------------------------------------------------- pipeline level

FIELDS = ['a', 'b', 'c']


def gen_impure_stack(rng):
    """-> (description, expected: 'reject' | 'accept')"""
    imp_where = rng.choice(['field', 'param', 'none', 'field', 'transform', 'byvalue_impure', 'impure_byvalue', 'combined_impure',
                            'combined_pure'])
    src = {'k': 'source', 'cls': 'S0', 'ids': ['i1', 'i2', 'i3'],
           'fields': {'a': {'args': ['i']}, 'b': {'args': ['i']}, 'k': {'args': ['i'], 'table': [[['i1'], 'u'], [['i2'], 'v'], [['i3'], 'u']]}},
           'params': {}, 'cargs': {}, 'defaults': {}}
    tainted = set()
    if imp_where == 'field':
        src['fields']['a']['impure'] = True
        tainted.add('a')
    elif imp_where == 'byvalue_impure':
        src['fields']['a']['impure'] = True
        src['fields']['a']['byvalue'] = True
        tainted.add('a')
    elif imp_where == 'impure_byvalue':
        src['fields']['a']['impure'] = True
        src['fields']['a']['byvalue'] = True
        src['fields']['a']['byvalue_outer'] = True
        tainted.add('a')
    elif imp_where == 'combined_impure':
        # a = hash_by_value(prepare=impure(f), compute=g): the by-value step is impure
        src['fields']['a']['combined'] = 'impure'
        tainted.add('a')
    elif imp_where == 'combined_pure':
        src['fields']['a']['combined'] = 'pure'
    elif imp_where == 'param':
        src['params']['_p'] = {'args': [], 'impure': True}
        src['fields']['b']['args'] = ['i', '_p']
        tainted.add('b')
    layers = [src]
    # a transform that spreads (or not) the taint
    t = {'k': 'transform', 'cls': 'T1', 'fields': {'c': {'args': rng.choice([['a'], ['b'], ['a', 'b'], ['k']])}}, 'params': {},
         'cargs': {}, 'defaults': {}, 'inherit': True}
    if rng.random() < 0.3:
        # the (possibly impure) value reaches `c` only through arguments annotated Silent: still downstream of the impure function
        t['fields']['c']['silent'] = list(t['fields']['c']['args'])
    if imp_where == 'transform':
        t['fields']['c']['impure'] = True
        tainted.add('c')
    if set(t['fields']['c']['args']) & tainted:
        tainted.add('c')
    # `@optional` changes nothing while the inputs are there: an available optional field downstream of an impure function is as
    # uncacheable as a required one
    for spec in (src['fields']['a'], src['fields']['b'], t['fields']['c']):
        if rng.random() < 0.25 and not spec.get('byvalue'):
            spec['opt'] = True
    if rng.random() < 0.7:
        layers.append(t)
        have_c = True
    else:
        have_c = False
        tainted.discard('c')
    if rng.random() < 0.3:
        layers.append({'k': 'ram', 'names': None, 'size': None, 'impure': True})     # an upstream cache that allows impurity
    nest = rng.random() < 0.3
    fields = ['a', 'b', 'k'] + (['c'] if have_c else [])
    kind = rng.choice(['ram', 'ram', 'disk', 'filter', 'groupby', 'columns'])
    if kind in ('ram', 'disk', 'columns'):
        names = rng.choice([None, rng.sample(fields, rng.randint(1, len(fields)))]) if kind == 'ram' else rng.sample(fields, rng.randint(1, len(fields)))
        flag = rng.random() < 0.3
        top = {'k': kind, 'names': names, 'impure': flag}
        if kind == 'ram':
            top['size'] = None
        else:
            top['root'] = 0
        if kind == 'columns':
            top['shard'] = None
        covered = set(fields) if names is None else set(names) & set(fields)
        expect = 'reject' if (covered & tainted and not flag) else 'accept'
    elif kind == 'filter':
        args = rng.sample([f for f in fields], rng.choice([1, 2]))
        top = {'k': 'filter', 'f': 'pred', 'args': args, 'table': []}
        expect = 'reject' if set(args) & tainted else 'accept'
    else:
        top = {'k': 'groupby', 'by': 'k'}
        expect = 'reject' if tainted & set(fields) else 'accept'
    if rng.random() < 0.25 and kind not in ('groupby',):
        # Merge of a pure twin and the (possibly tainted) dataset, both continued by the same layers
        twin = {'k': 'source', 'cls': 'S0p', 'ids': ['j1', 'j2'],
                'fields': {'a': {'args': ['i']}, 'b': {'args': ['i']}, 'k': {'args': ['i'], 'table': [[['j1'], 'u'], [['j2'], 'v']]}},
                'params': {}, 'cargs': {}, 'defaults': {}}
        if rng.random() < 0.3:
            # the (possibly impure) dataset has no entries: its functions are still part of the merged pipeline
            layers[0] = dict(layers[0], ids=[])
        parts = [{'k': 'chain', 'flavour': 'chain', 'layers': [twin] + layers[1:]} if len(layers) > 1 else twin,
                 {'k': 'chain', 'flavour': 'chain', 'layers': layers} if len(layers) > 1 else layers[0]]
        if rng.random() < 0.5:
            parts.reverse()
        desc = {'k': 'chain', 'flavour': 'chain', 'layers': [{'k': 'merge', 'parts': parts}, top]}
        kind = kind + '+merge'
    elif nest and len(layers) >= 2 and layers[1]['k'] == 'transform' and kind in ('ram', 'disk') and rng.random() < 0.6:
        # the tail of the pipeline as a block that is built on its own first and nested twice: src >> Chain(T1, ..., Chain(TI, top));
        # the layer that must refuse sits inside the inner chain, the impure function outside of the block
        ti = {'k': 'transform', 'cls': 'TI', 'fields': {}, 'params': {}, 'cargs': {}, 'defaults': {}, 'inherit': True}
        inner = {'k': 'chain', 'flavour': rng.choice(['chain', 'rshift']), 'layers': [ti, top]}
        block = {'k': 'chain', 'flavour': 'chain', 'layers': layers[1:] + [inner]}
        desc = {'k': 'chain', 'flavour': rng.choice(['chain', 'rshift']), 'layers': [layers[0], block]}
        kind = kind + '+nested-twice'
    elif nest and len(layers) >= 2:
        desc = {'k': 'chain', 'flavour': 'chain', 'layers': [{'k': 'chain', 'flavour': 'chain', 'layers': layers}, top]}
    else:
        desc = {'k': 'chain', 'flavour': 'chain', 'layers': layers + [top]}
    return desc, expect, kind


def run_pipeline_shard(args):
    seed, n = args
    os.makedirs(paths.SCRATCH, exist_ok=True)
    scratch = tempfile.mkdtemp(prefix='cv-imp-', dir=paths.SCRATCH)
    problems = []
    stats = {'stacks': 0, 'reject': 0, 'accept': 0, 'kinds': {}}
    try:
        # one builder for half of the shard: classes (hence edge objects) and layer objects are shared by all its pipelines,
        # so pure and impure pipelines are built from the same objects in every order (what was validated before must not matter)
        shared_b = Builder(SymWorld(), roots=[tempfile.mkdtemp(dir=scratch)])
        shared_b.object_pool = {}
        for c in range(n):
            rng = random.Random(seed * 27449 + c)
            desc, expect, kind = gen_impure_stack(rng)
            root = tempfile.mkdtemp(dir=scratch)
            if c % 2:
                b = shared_b
                stats['shared_objects'] = stats.get('shared_objects', 0) + 1
            else:
                b = Builder(SymWorld(), roots=[root])
            stats['stacks'] += 1
            stats[expect] += 1
            stats['kinds'][kind] = stats['kinds'].get(kind, 0) + 1
            try:
                p = b.layer(desc)
                built = 'accept'
                err = None
            except Exception as e:
                built, err = 'reject', exc_name(e)
            if built != expect:
                problems.append({'desc': desc, 'msg': f'a {kind} layer downstream of an impure function: building was expected to '
                                 f'{expect}, the code did {built}' + (f' ({err})' if err else '')})
            elif built == 'reject' and err not in ('ValueError', 'HashError'):
                problems.append({'desc': desc, 'msg': f'rejected with an unexpected error class {err}'})
    finally:
        shutil.rmtree(scratch, ignore_errors=True)
    return stats, problems


# ---------------------------------------------------------------- combined by-value fields: the call returns (C01), caches refuse (C13)

def _combined_child(kind):
    from .pipeline import Builder
    from .sym import SymWorld
    from .codec import canon, val_to_json, exc_name
    world = SymWorld()
    b = Builder(world)
    t1 = {'k': 'transform', 'cls': 'CB', 'fields': {'y': {'args': ['x'], 'combined': kind}}, 'params': {}, 'cargs': {}, 'defaults': {}}
    t2 = {'k': 'transform', 'cls': 'CB2', 'fields': {'z': {'args': ['y']}}, 'params': {}, 'cargs': {}, 'defaults': {}, 'inherit': True}
    t = {'k': 'chain', 'flavour': 'chain', 'layers': [t1, t2]}
    layer = b.layer(t)
    out = {}
    try:
        out['y'] = canon(val_to_json(layer.y(1), world))
        out['z'] = canon(val_to_json(layer.z(1), world))
    except Exception as e:
        out['err'] = exc_name(e)
    for name, mk in (('ram', lambda: {'k': 'ram', 'names': None, 'size': None}), ('ram-z', lambda: {'k': 'ram', 'names': ['z'], 'size': None})):
        try:
            b.layer({'k': 'chain', 'flavour': 'chain', 'layers': [t, mk()]})
            out[name] = 'built'
        except Exception as e:
            out[name] = exc_name(e)
    return out


def run_combined():
    """hash_by_value(prepare=f, compute=g) with a pure and with an @impure `prepare`: calling the field returns g(f(x)) (a call that
    does not return within the deadline is a violation of C01), and a cache layer without impure=True refuses the impure variant"""
    from .par import with_deadline
    problems = []
    for kind in ('pure', 'impure'):
        status, out = with_deadline(_combined_child, kind, timeout=30)
        if status != 'ok':
            problems.append({'kind': 'c01', 'combined': kind, 'msg': f'a field defined as hash_by_value(prepare={"impure(f)" if kind == "impure" else "f"}, '
                                                                     f'compute=g) did not return within 30 s ({status}): the call never returns'})
            continue
        if 'err' in out:
            problems.append({'kind': 'c01', 'combined': kind, 'msg': f'calling a combined by-value field raised {out["err"]}'})
        elif '#compute' not in out.get('y', '') or '#prepare' not in out.get('y', ''):
            problems.append({'kind': 'c01', 'combined': kind, 'msg': f'a combined by-value field returned {out.get("y", "")[:120]}, not compute(prepare(x))'})
        want = 'built' if kind == 'pure' else 'ValueError'
        for name in ('ram', 'ram-z'):
            if out.get(name) != want:
                problems.append({'kind': 'c13', 'combined': kind, 'msg': f'CacheToRam over a field downstream of hash_by_value(prepare='
                                 f'{"impure(f)" if kind == "impure" else "f"}, compute=g): {out.get(name)} (expected {want})'})
    return problems


def run_marked_then_wrapped(seed=0):
    """a function marked `impure(...)` and then handed to an entry point that expects a plain callable (`Apply(x=impure(f))`, `Function(impure(f),
    'x')`): whatever that construct means, a cache layer without `impure=True` / a Filter on it never ends up serving or keying a value of the
    impure function: the pipeline is rejected when defined or built, or cannot be evaluated"""
    paths.use_repo()
    import connectome as c
    from connectome.interface.edges import Function
    import itertools
    problems = []
    for form, top in itertools.product(['apply', 'function'], ['ram', 'filter']):
        counter = itertools.count()

        def tick(x):
            return (x, next(counter))
        try:
            src = c.Transform(x=lambda id: id, ids=c.meta(lambda: ('0', '1', '2')), id=lambda id: id)
            layer = c.Apply(x=c.impure(tick)) if form == 'apply' else c.Transform(__inherit__=True, x=Function(c.impure(tick), 'x'))
            pipe = src >> layer >> (c.CacheToRam() if top == 'ram' else c.Filter(lambda x: True))
            if top == 'ram':
                a, b2 = pipe.x('1'), pipe.x('1')
                served = a == b2
            else:
                pipe.ids
                served = True
        except Exception:
            continue            # rejected at definition / build time, or not evaluable: nothing impure is cached or keyed
        if served:
            problems.append({'msg': f'a function marked impure(...) passed through {form} and then under {"CacheToRam()" if top == "ram" else "Filter"} without impure=True '
                                    f'was accepted and evaluated: the impure value is served from the cache / enters a static hash'})
    return problems
