"""S-LRU: histories of get / set / clear on the real MemoryCache against the Lean MemStore; S-COL: `_get_shard`
of the real CachedColumn against CM.Model.Shard, and what one call of a CacheColumns pipeline materialises."""
import json, math, os, random, shutil, tempfile
from . import driver, paths
from .codec import canon, val_to_json, hash_to_json

KEYS = ['a', 'b', 'c', 'd', 'e', -1, -2, 0, 1, True, False, 2]


def run_lru_shard(args):
    seed, n = args
    paths.use_repo()
    from connectome.cache import MemoryCache
    from connectome.engine import LeafHash, ApplyHash
    reqs, reals, metas = [], [], []
    for c in range(n):
        rng = random.Random(seed * 65537 + c)
        size = rng.choice([None, 1, 2, 3, 5])
        cache = MemoryCache(size)
        keys = rng.sample(KEYS, rng.randint(2, 7))
        ops, real = [], []
        for _ in range(rng.randint(5, 40)):
            r = rng.random()
            k = rng.choice(keys)
            kh = LeafHash(k) if rng.random() < 0.8 else ApplyHash(len, LeafHash(k))
            hj = hash_to_json(kh.value)
            if r < 0.45:
                v, hit = cache.get(kh, None)
                ops.append(['get', hj])
                real.append({'hit': bool(hit), 'v': val_to_json(v) if hit else None, 'n': len(cache._cache)})
            elif r < 0.9:
                # values incl. None and other falsy ones: a stored None is a hit like any other value
                v = rng.choice([None, None, 0, '', False, ()]) if rng.random() < 0.3 else rng.randrange(100)
                cache.set(kh, v, None)
                ops.append(['set', hj, val_to_json(v)])
                real.append({'n': len(cache._cache)})
                if rng.random() < 0.3:
                    # direct oracle: the key stored last is among the `size` most recent ones: reading it back is a hit
                    v2, hit2 = cache.get(kh, None)
                    ops.append(['get', hj])
                    real.append({'hit': bool(hit2), 'v': val_to_json(v2) if hit2 else None, 'n': len(cache._cache)})
                    if not hit2 or v2 is not v:
                        real[-1]['over'] = f'get right after set({k!r}, {v!r}) returned hit={hit2}, value={v2!r}'
            else:
                cache.clear()
                ops.append(['clear'])
                real.append({'n': len(cache._cache)})
            if size is not None and len(cache._cache) > size:
                real[-1]['over'] = f'MemoryCache(size={size}) holds {len(cache._cache)} entries'
        reqs.append({'op': 'lru', 'size': size, 'ops': ops})
        reals.append(real)
        metas.append({'size': size, 'ops': ops})
    answers = driver.run_lines(reqs)
    bad, over = [], []
    stats = {'histories': n, 'ops': 0, 'hits': 0, 'sizes': {}}
    for meta, real, ans in zip(metas, reals, answers):
        stats['sizes'][str(meta['size'])] = stats['sizes'].get(str(meta['size']), 0) + 1
        if 'error' in ans:
            bad.append({**meta, 'diff': ans['error']})
            continue
        for i, (r, m) in enumerate(zip(real, ans['results'])):
            stats['ops'] += 1
            stats['hits'] += 1 if r.get('hit') else 0
            if r.get('over'):
                over.append({**meta, 'step': i, 'msg': r['over']})
            rr = {k: v for k, v in r.items() if k != 'over'}
            if canon(rr) != canon(m):
                bad.append({**meta, 'step': i, 'real': rr, 'model': m})
                break
    return stats, bad, over


def fl(x):
    return x


def run_shard_shard(args):
    seed, n = args
    paths.use_repo()
    from connectome.layers.columns import CachedColumn
    reqs, reals, metas = [], [], []
    for c in range(n):
        rng = random.Random(seed * 92821 + c)
        pool = [f'k{i:02d}' for i in range(30)] + ['', 'K', 'a']
        keys = rng.sample(pool, rng.randint(1, 20))
        if rng.random() < 0.1:
            keys.append(rng.choice(keys))
        r = rng.random()
        size = None if r < 0.2 else (rng.randint(2, 7) if r < 0.7 else rng.choice([0.1, 0.25, 0.3, 0.5, 0.34, 1.0, 0.9]))
        key = rng.choice(keys) if rng.random() < 0.9 else 'zz'
        col = CachedColumn.__new__(CachedColumn)
        col.shard_size = size
        try:
            shard, count, idx = col._get_shard(key, tuple(keys))
            real = {'shard': list(shard), 'count': count, 'idx': idx}
        except Exception as e:
            real = {'err': type(e).__name__}
        size_int = size if not isinstance(size, float) else math.ceil(size * len(keys))
        reqs.append({'op': 'shard', 'keys': keys, 'size': size_int, 'key': key})
        reals.append(real)
        metas.append({'keys': keys, 'size': size, 'key': key})
    answers = driver.run_lines(reqs)
    bad, oracle = [], []
    for meta, real, ans in zip(metas, reals, answers):
        if canon(real) != canon(ans):
            bad.append({**meta, 'real': real, 'model': ans})
        # direct oracle: the shards partition the sorted keys and the returned one holds the key
        if 'shard' in real:
            ks = sorted(meta['keys'])
            if meta['key'] not in real['shard']:
                oracle.append({**meta, 'msg': 'the shard does not hold the requested key'})
            size = meta['size']
            if size is not None:
                s = size if not isinstance(size, float) else math.ceil(size * len(ks))
                chunks = [ks[i:i + s] for i in range(0, len(ks), s)]
                if real['shard'] not in chunks or real['count'] != len(chunks) or chunks[real['idx']] != real['shard']:
                    oracle.append({**meta, 'msg': f'shard {real} is not a block of the partition {chunks}'})
            elif real['shard'] != ks:
                oracle.append({**meta, 'msg': 'without a shard size the single shard must hold every key'})
        elif meta['key'] in meta['keys']:
            oracle.append({**meta, 'msg': f'a cached key was rejected: {real}'})
    return {'shard_cases': n}, bad, oracle


def run_columns_shard(args):
    """pipelines Source >> CacheColumns(shard_size): one call executes upstream exactly for the shard of the sorted ids
    that holds the key; repeating it (same object, rebuilt object) executes nothing."""
    seed, n = args
    from .pipeline import Builder
    from .sym import SymWorld
    scratch = tempfile.mkdtemp(prefix='cv-col-', dir=paths.SCRATCH)
    problems = []
    stats = {'column_cases': 0, 'calls': 0}
    try:
        for c in range(n):
            rng = random.Random(seed * 7121 + c)
            root = tempfile.mkdtemp(dir=scratch)
            ids = rng.sample([f'i{k}' for k in range(9)] + ['', 'Z'], rng.randint(2, 8))
            size = rng.choice([None, 2, 3, 0.5, 0.34])
            src = {'k': 'source', 'cls': 'C0', 'ids': ids, 'fields': {'x': {'args': ['i']}, 'y': {'args': ['i']}},
                   'params': {}, 'cargs': {}, 'defaults': {}}
            desc = {'k': 'chain', 'flavour': 'chain', 'layers': [src, {'k': 'columns', 'names': ['x'], 'root': 0, 'shard': size}]}
            world = SymWorld()
            b = Builder(world, roots=[root])
            stats['column_cases'] += 1
            try:
                p = b.layer(desc)
                ks = sorted(ids)
                s = len(ks) if size is None else (size if not isinstance(size, float) else math.ceil(size * len(ks)))
                chunks = [ks[i:i + s] for i in range(0, len(ks), s)]
                key = rng.choice(ids)
                mark = world.mark()
                v = p.x(key)
                called = sorted(c[1][0] for c in world.since(mark) if c[0] == 'C0.x')
                want = next(ch for ch in chunks if key in ch)
                stats['calls'] += 1
                if canon(val_to_json(v, world)) != canon({'app': ['C0.x', [key], [], []]}):
                    problems.append({'desc': desc, 'msg': f'x({key!r}) returned {v!r}'})
                if called != sorted(want):
                    problems.append({'desc': desc, 'key': key, 'msg': f'x({key!r}) executed upstream for {called}, the shard of the sorted ids holding the key is {want}'})
                # the whole shard is now in RAM: no execution for any of its keys; another shard executes only itself
                mark = world.mark()
                for k2 in want:
                    p.x(k2)
                if world.since(mark):
                    problems.append({'desc': desc, 'msg': f'keys of the materialised shard {want} executed {[c[0] for c in world.since(mark)]}'})
                # a rebuilt pipeline on the same storage, ids listed in another order: served from disk
                ids2 = list(ids)
                rng.shuffle(ids2)
                src2 = dict(src, ids=ids2)
                b2 = Builder(world, roots=[root])
                b2.classes = {}
                src2['cls'] = 'C0'
                world.consts['C0.ids'] = tuple(ids2)
                p2 = b2.layer({'k': 'chain', 'flavour': 'chain', 'layers': [src2, desc['layers'][1]]})
                mark = world.mark()
                v2 = p2.x(key)
                ex = [c for c in world.since(mark) if c[0] == 'C0.x']
                if ex:
                    problems.append({'desc': desc, 'key': key, 'ids2': ids2, 'msg': f'a rebuilt pipeline (ids listed as {ids2}) executed upstream for {[c[1][0] for c in ex]} although the shard is on disk'})
            except Exception as e:
                problems.append({'desc': desc, 'msg': 'raised ' + type(e).__name__ + ': ' + str(e)[:200]})
    finally:
        shutil.rmtree(scratch, ignore_errors=True)
    return stats, problems


def run_columns_variants(args):
    """C04 for CacheColumns: pipeline variants (one branch of a Merge computes a field differently) sharing one
    storage must each return the values of their own cache-free pipeline, for every key, shard size and call order."""
    seed, n = args
    from .pipeline import Builder
    from .sym import SymWorld
    from . import rel
    scratch = tempfile.mkdtemp(prefix='cv-colv-', dir=paths.SCRATCH)
    problems = []
    stats = {'variant_cases': 0, 'calls': 0}
    try:
        for c in range(n):
            rng = random.Random(seed * 3571 + c)
            root = tempfile.mkdtemp(dir=scratch)
            pool = [f'i{k}' for k in range(8)]
            rng.shuffle(pool)
            cut = rng.randint(1, 4)
            ids_a, ids_b = pool[:cut], pool[cut:cut + rng.randint(1, 4)]
            size = rng.choice([None, None, 2, 3, 0.5])

            def desc(fb, fa='A.x', shard=size):
                a = {'k': 'source', 'cls': 'A', 'ids': ids_a, 'fields': {'x': {'args': ['i'], 'f': fa}}, 'params': {}, 'cargs': {}, 'defaults': {}}
                bb = {'k': 'source', 'cls': 'B' + fb, 'ids': ids_b, 'fields': {'x': {'args': ['i'], 'f': fb}}, 'params': {}, 'cargs': {}, 'defaults': {}}
                return {'k': 'chain', 'flavour': 'chain', 'layers': [{'k': 'merge', 'parts': [a, bb]},
                                                                     {'k': 'columns', 'names': ['x'], 'root': 0, 'shard': shard}]}
            variants = [desc('B.x'), desc('B.x#v2')]
            if rng.random() < 0.5:
                variants.append(desc('B.x', 'A.x#v2'))
            # the same pipeline rebuilt on the same storage with other shard sizes (also sizes giving the same number of shards)
            for other in rng.sample([None, 2, 3, 4, 5, 0.5, 0.34], rng.randint(1, 3)):
                if other != size:
                    variants.append(desc('B.x', shard=other))
            world = SymWorld()
            stats['variant_cases'] += 1
            order = list(range(len(variants))) * 2
            rng.shuffle(order)
            for vi in order:
                d = variants[vi]
                try:
                    p = Builder(world, roots=[root]).layer(d)
                    r = rel.ref({'k': 'merge', 'parts': d['layers'][0]['parts']})
                    for key in rng.sample(ids_a + ids_b, min(4, len(ids_a + ids_b))):
                        got = canon(val_to_json(p.x(key), world))
                        want = canon(val_to_json(r.value('x', key)))
                        stats['calls'] += 1
                        if got != want:
                            problems.append({'variants': variants, 'order': order, 'msg': f'variant {vi}: x({key!r}) returned {got[:150]} '
                                             f'but the pipeline without cache layers returns {want[:150]} (shared column storage)'})
                            break
                except Exception as e:
                    problems.append({'variants': variants, 'msg': 'raised ' + type(e).__name__ + ': ' + str(e)[:200]})
    finally:
        shutil.rmtree(scratch, ignore_errors=True)
    return stats, problems


def run_shared_ram(args):
    """C08 (with C09): ONE CacheToRam(size=k) layer object composed into two pipelines over different datasets: each pipeline
    has its own bounded cache per field - after pipeline `a` returned through it for k keys, calls of pipeline `b` (any keys)
    do not evict them: repeating a's k most recently used keys executes nothing upstream of a's cache"""
    seed, n = args
    from .pipeline import Builder
    from .sym import SymWorld
    problems, stats = [], {'shared_ram_cases': 0, 'calls': 0}
    for c in range(n):
        rng = random.Random(seed * 7507 + c)
        k = rng.choice([1, 2, 3])
        ids = [f'i{j}' for j in range(6)]
        world = SymWorld()
        b = Builder(world)
        b.object_pool = {}

        def pipe(tag):
            src = {'k': 'source', 'cls': 'R' + tag, 'ids': ids, 'fields': {'x': {'args': ['i'], 'f': f'R{tag}.x'}}, 'params': {}, 'cargs': {}, 'defaults': {}}
            t = {'k': 'transform', 'cls': 'RT', 'fields': {'y': {'args': ['x']}}, 'params': {}, 'cargs': {}, 'defaults': {}, 'inherit': True}
            return b.layer({'k': 'chain', 'flavour': 'chain', 'layers': [src, t, {'k': 'ram', 'names': ['y'] if rng.random() < 0.5 else None, 'size': k}]})
        try:
            pa, pb = pipe('a'), pipe('b')
            fa, fb = pa._compile('y'), pb._compile('y')
            mine = rng.sample(ids, k)
            for i in mine:
                fa(i)
            for i in rng.sample(ids, rng.randint(1, len(ids))):
                fb(i)
            mark = world.mark()
            for i in mine:
                fa(i)
                stats['calls'] += 1
            again = [c_[0] for c_ in world.since(mark)]
            stats['shared_ram_cases'] += 1
            if again:
                problems.append({'size': k, 'keys': mine, 'msg': f'one CacheToRam(size={k}) object in two pipelines: after pipeline a returned {mine} and '
                                 f'pipeline b was used, repeating a\'s {k} most recently used keys executed {sorted(set(again))} upstream of the cache'})
        except Exception as e:
            problems.append({'msg': 'shared RAM layer scenario raised ' + type(e).__name__ + ': ' + str(e)[:150]})
    return stats, problems


def run_columns_faults(args):
    """C08 with failures: a user function fails for one key while a shard is generated; a later call (no failure) returns; from
    then on the call has returned through the column cache: a REBUILT pipeline on the same storage executes nothing upstream for
    that key (what RAM holds must be on disk too)"""
    seed, n = args
    from .pipeline import Builder
    from .sym import SymWorld, UserFault
    scratch = tempfile.mkdtemp(prefix='cv-colf-', dir=paths.SCRATCH)
    problems, stats = [], {'fault_cases': 0, 'calls': 0}
    try:
        for c in range(n):
            rng = random.Random(seed * 9343 + c)
            root = tempfile.mkdtemp(dir=scratch)
            ids = [f'i{k}' for k in range(rng.randint(3, 7))]
            size = rng.choice([None, 2, 3, 4])
            src = {'k': 'source', 'cls': 'CF', 'ids': ids, 'fields': {'x': {'args': ['i']}}, 'params': {}, 'cargs': {}, 'defaults': {}}
            desc = {'k': 'chain', 'flavour': 'chain', 'layers': [src, {'k': 'columns', 'names': ['x'], 'root': 0, 'shard': size}]}
            world = SymWorld()
            world.fault_class = UserFault
            try:
                p = Builder(world, roots=[root]).layer(desc)
                key = rng.choice(ids)
                # the j-th execution of the user function during the first call fails
                world.fail_at = {world.serial + rng.randint(1, len(ids))}     # +0 is the ids listing
                try:
                    p.x(key)
                    failed = False
                except UserFault:
                    failed = True
                world.fail_at = set()
                later = rng.sample(ids, min(len(ids), 3))
                vals = {k2: canon(val_to_json(p.x(k2), world)) for k2 in later}
                stats['fault_cases'] += 1
                for k2 in later:
                    if vals[k2] != canon({'app': ['CF.x', [k2], [], []]}):
                        problems.append({'desc': desc, 'value': True, 'first_key': key, 'failed_first': failed, 'msg': f'after a failed shard generation x({k2!r}) returned {vals[k2][:100]}'})
                b2 = Builder(world, roots=[root])
                p2 = b2.layer(desc)
                mark = world.mark()
                for k2 in later:
                    p2.x(k2)
                    stats['calls'] += 1
                ex = sorted({c_[1][0] for c_ in world.since(mark) if c_[0] == 'CF.x'})
                if ex:
                    problems.append({'desc': desc, 'failed_first': failed, 'keys': later,
                                     'msg': f'x{tuple(later)} had returned through the column cache (after a failed first attempt: {failed}); a rebuilt pipeline on '
                                            f'the same storage executed the upstream function again for {ex}'})
            except Exception as e:
                problems.append({'desc': desc, 'msg': 'raised ' + type(e).__name__ + ': ' + str(e)[:200]})
    finally:
        shutil.rmtree(scratch, ignore_errors=True)
    return stats, problems


def run_columns_ids_alias(args):
    """C04: a column cache reads the `ids` of the previous layer; whatever it does with them, `ids` and the fields computed from
    them keep returning what the pipeline without caches returns - also when `ids` is an unsorted LIST kept by a RAM cache below."""
    seed, n = args
    from .pipeline import Builder
    from .sym import SymWorld
    scratch = tempfile.mkdtemp(prefix='cv-cola-', dir=paths.SCRATCH)
    problems, stats = [], {'alias_cases': 0, 'calls': 0}
    try:
        for c in range(n):
            rng = random.Random(seed * 7477 + c)
            root = tempfile.mkdtemp(dir=scratch)
            ids = [f'i{k}' for k in range(rng.randint(3, 7))]
            rng.shuffle(ids)
            as_list = rng.random() < 0.7
            src = {'k': 'source', 'cls': 'CA', 'ids': ids, 'ids_list': as_list, 'fields': {'x': {'args': ['i']}}, 'params': {}, 'cargs': {}, 'defaults': {}}
            layers = [src]
            if rng.random() < 0.7:
                layers.append({'k': 'ram', 'names': None, 'size': None})
            layers.append({'k': 'columns', 'names': ['x'], 'root': 0, 'shard': rng.choice([None, 2, 3])})
            if rng.random() < 0.5:
                layers.append({'k': 'ram', 'names': None, 'size': None})
            desc = {'k': 'chain', 'flavour': 'chain', 'layers': layers}
            world = SymWorld()
            want = list(ids) if as_list else tuple(ids)
            try:
                p = Builder(world, roots=[root]).layer(desc)
                stats['alias_cases'] += 1
                for step in range(4):
                    got = p.ids
                    stats['calls'] += 1
                    if got != want or type(got) is not type(want):
                        problems.append({'desc': desc, 'value': True, 'msg': f'after {step} column requests `ids` returned {got!r}; the pipeline '
                                         f'without cache layers returns {want!r}'})
                        break
                    k2 = rng.choice(ids)
                    v = canon(val_to_json(p.x(k2), world))
                    if v != canon({'app': ['CA.x', [k2], [], []]}):
                        problems.append({'desc': desc, 'value': True, 'msg': f'x({k2!r}) returned {v[:100]}'})
                        break
            except Exception as e:
                problems.append({'desc': desc, 'msg': 'raised ' + type(e).__name__ + ': ' + str(e)[:200]})
    finally:
        shutil.rmtree(scratch, ignore_errors=True)
    return stats, problems


def run_lru_big(args):
    """C08 bound for LARGE sizes (direct oracle, no model): a MemoryCache(size) and a CacheToRam(size=...) pipeline fed with more than
    `size` distinct keys never hold more than `size` entries - also after clear() - hit on the `size` most recent keys and
    have evicted the key used before them."""
    seed, n = args
    paths.use_repo()
    from connectome.cache import MemoryCache
    from connectome.engine import LeafHash
    problems, stats = [], {'big_cases': 0, 'ops': 0}
    for c in range(n):
        rng = random.Random(seed * 52361 + c)
        size = rng.choice([rng.randint(6, 40), rng.randint(100, 300), 1023, 1024, 1025, rng.randint(1026, 2047), 2048, 2049,
                           rng.randint(2050, 3500)])
        cache = MemoryCache(size)
        extra = rng.randint(1, 40)
        worst = 0
        for rnd in range(2):
            base = rnd * 100000
            for i in range(size + extra):
                cache.set(LeafHash(base + i), i, None)
                worst = max(worst, len(cache._cache))
            stats['ops'] += size + extra
            recent = [base + i for i in range(extra, size + extra)]
            probe = [recent[0], recent[-1], rng.choice(recent)]
            misses = [k for k in probe if not cache.get(LeafHash(k), None)[1]]
            old_hit = cache.get(LeafHash(base + extra - 1), None)[1]
            if worst > size:
                problems.append({'size': size, 'msg': f'MemoryCache(size={size}) held {worst} entries' + (' after clear()' if rnd else '')})
                break
            if misses:
                problems.append({'size': size, 'msg': f'MemoryCache(size={size}): {len(misses)} of the {size} most recently used keys missed'})
                break
            if old_hit:
                problems.append({'size': size, 'msg': f'MemoryCache(size={size}): a key used before the {size} most recent ones was still served'})
                break
            cache.clear()
        stats['big_cases'] += 1
    return stats, problems


def run_columns_and_entries(args):
    """a column cache and a per-entry disk cache for the SAME field over the SAME index and storage (a legal setup), with shards of one,
    two or all entries (relative shard sizes, a dataset reduced to one id): the key of a shard (a tuple of values) is never the key of an
    entry, in whichever order the two caches are filled (C05 / C04)"""
    seed, n = args
    import shutil, tempfile
    paths.use_repo()
    from tarn import HashKeyStorage
    from tarn.config import StorageConfig, init_storage
    import connectome as c
    from connectome.serializers import JsonSerializer
    os.makedirs(paths.SCRATCH, exist_ok=True)
    problems, cases = [], 0
    for i in range(n):
        rng = random.Random(seed * 9241 + i)
        root = tempfile.mkdtemp(prefix='cv-colent-', dir=paths.SCRATCH)
        try:
            index, storage = os.path.join(root, 'index'), os.path.join(root, 'storage')
            for p in (index, storage):
                init_storage(StorageConfig(hash='sha256', levels=[1, 31]), p)
            k = rng.randint(1, 4)
            ids = [f'i{j}' for j in range(k)]
            def _ids(ids=tuple(ids)):
                return ids
            ds = c.Transform(ids=c.meta((lambda t: lambda: t)(tuple(ids))), id=lambda id: id, image=lambda id: 'image-' + id)
            shard = rng.choice([None, 0.5, 0.34, 1 / max(k, 1), 2, 3])
            if shard == 1:
                shard = None            # 1 is rejected as ambiguous
            columns = ds >> c.CacheColumns(index, HashKeyStorage(storage), JsonSerializer(), 'image', shard_size=shard)
            entries = ds >> c.CacheToDisk(index, HashKeyStorage(storage), JsonSerializer(), 'image')
            order = [('columns', columns), ('entries', entries)]
            rng.shuffle(order)
            cases += 1
            for key in ids:
                for name, p in order:
                    got = p.image(key)
                    if got != 'image-' + key:
                        problems.append({'ids': ids, 'shard': shard,
                                         'msg': f'CacheColumns(shard_size={shard}) and CacheToDisk for one field over one storage, {len(ids)} ids, filled in the order '
                                                f'{[o[0] for o in order]}: {name}.image({key!r}) returned {got!r}'})
                        break
                else:
                    continue
                break
        except Exception as e:
            problems.append({'msg': 'columns + entries scenario raised ' + type(e).__name__ + ': ' + str(e)[:160]})
        finally:
            shutil.rmtree(root, ignore_errors=True)
    return {'cases': cases}, problems
