"""Pipe JSON lines through the compiled Lean driver."""
import json, subprocess
from . import paths


class DriverError(RuntimeError):
    pass


def run_lines(requests, timeout=600):
    """requests: list of JSON-able objects; returns the list of answers (same order)."""
    if not requests:
        return []
    data = '\n'.join(json.dumps(r, separators=(',', ':')) for r in requests) + '\n'
    p = subprocess.run([paths.DRIVER], input=data.encode(), stdout=subprocess.PIPE, stderr=subprocess.PIPE,
                       timeout=timeout)
    if p.returncode != 0:
        raise DriverError(f'driver exited with {p.returncode}: {p.stderr.decode()[-2000:]}')
    lines = p.stdout.decode().splitlines()
    if len(lines) != len(requests):
        raise DriverError(f'driver answered {len(lines)} lines for {len(requests)} requests: {p.stderr.decode()[-500:]}')
    return [json.loads(x) for x in lines]
