"""S-EXTERNAL (C01, C02, C05, C06, C07): `External(obj, ...)` / `ExternalBase` layers wrapping an ordinary object with several properties and
methods, alone and in front of a Transform: every compiled field returns what the wrapped object returns, tuple requests too; fields have
pairwise different node hashes when the marker tells them apart; the hashes (and persistent digests) do not depend on the string-hash
seed of the interpreter (a child interpreter per seed)."""
import hashlib, json, os, random, subprocess, sys
from . import paths

PROPS = ['ids', 'classes', 'modality', 'spacing']
METHODS = ['image', 'mask', 'shape', 'kind']


def build(seed):
    """-> (pipeline, wrapped object, property names, method names); deterministic in `seed`"""
    paths.use_repo()
    import connectome as c
    from connectome.interface.external import External, ExternalBase
    rng = random.Random(seed)
    props = rng.sample(PROPS[1:], rng.randint(1, 3)) + ['ids']
    methods = rng.sample(METHODS, rng.randint(2, 4))
    ns = {}
    for p in props:
        ns[p] = property((lambda p: lambda self: ('a', 'b', 'c') if p == 'ids' else (p, 'value'))(p))
    for m in methods:
        ns[m] = (lambda m: lambda self, i: f'{m}-{i}')(m)
    form = rng.choice(['auto', 'explicit', 'base'])
    marker = rng.choice([None, 'named'])
    mk = (lambda name, *args: 'EX.' + name) if marker == 'named' else None
    if form == 'base':
        def init(self):
            ExternalBase.__init__(self, fields=methods + props, properties=props, inputs=['id'], marker=mk)
        ns['__init__'] = init
        cls = type('ExObj', (ExternalBase,), ns)
        obj = layer = cls()
    else:
        cls = type('ExObj', (), ns)
        obj = cls()
        kw = {} if form == 'auto' else {'fields': methods + props, 'properties': props}
        layer = External(obj, inputs=['id'], marker=mk, **kw)
    tail = rng.choice(['transform', 'inherit', 'none'])
    if tail == 'transform':
        # (an External layer has no `id` field: the new field reads one of the wrapped methods)
        pipe = layer >> c.Transform(__inherit__=True, **{'extra': eval(f'lambda {methods[0]}: ("extra", {methods[0]})')})
    elif tail == 'inherit':
        pipe = c.Chain(layer, c.Transform(__inherit__=props + methods))
    else:
        pipe = c.Chain(layer)
    return pipe, obj, props, methods, {'form': form, 'marker': marker, 'tail': tail, 'props': props, 'methods': methods}


def observe(seed):
    from tarn.pickler import dumps
    pipe, obj, props, methods, desc = build(seed)
    out = {'desc': desc, 'values': {}, 'digests': {}, 'static': {}, 'errors': {}}
    for p in props:
        try:
            out['values'][p] = [repr(getattr(pipe, p)), repr(getattr(obj, p))]
        except Exception as e:
            out['errors'][p] = type(e).__name__
    for m in methods:
        try:
            f = pipe._compile(m)
            out['values'][m] = [repr(f('b')), repr(getattr(obj, m)('b'))]
            out['digests'][m] = hashlib.sha256(dumps(f.get_hash('b')[0].value)).hexdigest()[:16]
            out['static'][m] = hashlib.sha256(dumps(f.hash().value)).hexdigest()[:16]       # what Filter / GroupBy / ... key by
        except Exception as e:
            out['errors'][m] = type(e).__name__ + ': ' + str(e)[:80]
    names = tuple(props[:1] + methods[:2])
    try:
        got = pipe._compile(names)('c')
        want = tuple(getattr(obj, n) if n in props else getattr(obj, n)('c') for n in names)
        out['values']['(' + ', '.join(names) + ')'] = [repr(got), repr(want)]
    except Exception as e:
        out['errors']['tuple'] = type(e).__name__ + ': ' + str(e)[:80]
    return out


def run_shard(args):
    seed, n = args
    problems, cases = [], 0
    for i in range(n):
        s = seed * 7451 + i
        try:
            o = observe(s)
        except Exception as e:
            problems.append({'seed': s, 'msg': 'an External pipeline raised ' + type(e).__name__ + ': ' + str(e)[:120]})
            continue
        cases += 1
        for name, (got, want) in o['values'].items():
            if got != want:
                problems.append({'seed': s, 'desc': o['desc'], 'msg': f'External layer ({o["desc"]["form"]}, then {o["desc"]["tail"]}): field {name} of the pipeline is {got[:80]}, '
                                                                      f'the wrapped object gives {want[:80]}'})
                break
        for name, err in o['errors'].items():
            problems.append({'seed': s, 'desc': o['desc'], 'msg': f'External layer: field {name} raised {err}'})
            break
        if o['desc']['marker'] == 'named':
            inv = {}
            for m, dg in o['digests'].items():
                inv.setdefault(dg, []).append(m)
            dup = [ms for ms in inv.values() if len(ms) > 1]
            sinv = {}
            for m, dg in o['static'].items():
                sinv.setdefault(dg, []).append(m)
            sdup = [ms for ms in sinv.values() if len(ms) > 1]
            if sdup:
                problems.append({'seed': s, 'desc': o['desc'], 'kind': 'static-collision',
                                 'msg': f'External layer with a marker that names the field: the compiled functions of {sdup[0]} (different methods of the wrapped '
                                        f'object) have the same static graph hash'})
            if dup:
                problems.append({'seed': s, 'desc': o['desc'], 'kind': 'collision',
                                 'msg': f'External layer with a marker that names the field: the fields {dup[0]} (different methods of the wrapped object) '
                                        f'have the same node hash on the same input'})
    return cases, problems


def run_hash_seeds(seed, n=3):
    """the digests of External fields in child interpreters with different PYTHONHASHSEED"""
    problems = []
    code = ('import sys, json; sys.path.insert(0, %r); from cv import suite_external; '
            'o = suite_external.observe(int(sys.argv[1])); print(json.dumps([o["digests"], o["static"]], sort_keys=True))' % os.path.dirname(os.path.dirname(os.path.abspath(__file__))))
    for i in range(n):
        s = seed * 331 + i
        outs = []
        for hs in ('0', '3', '7'):
            env = dict(os.environ, PYTHONHASHSEED=hs)
            p = subprocess.run([sys.executable, '-c', code, str(s)], capture_output=True, text=True, env=env, timeout=120)
            outs.append(p.stdout.strip().splitlines()[-1] if p.returncode == 0 and p.stdout.strip() else 'ERR ' + p.stderr[-200:])
        if len(set(outs)) > 1:
            problems.append({'seed': s, 'kind': 'hash-seed',
                             'msg': f'External pipeline {s}: the persistent digests of its fields differ between interpreters with PYTHONHASHSEED 0 / 3 / 7: '
                                    f'{outs[0][:100]} vs {outs[1][:100]} vs {outs[2][:100]}'})
    return n * 3, problems
