"""Dataset-wide layers (Merge, Filter, CheckIds, GroupBy, Join): generator of small dataset pipelines, a reference
evaluator written from the property texts (C14-C17), and the observation of the real pipeline on every id."""
import hashlib, random
from .sym import App
from .real_vm import json_to_py

UNIVERSE = [f'i{k}' for k in range(7)] + ['']     # the empty string is a legal (falsy) id
IDS_FORMS = ['list', 'list', 'tuple', 'set', 'iter', 'gen', 'dupes', 'keys']   # Filter.keep / drop take any Iterable[str]
FOREIGN = ['zz']
KEYS = ['u', 'v', 'w']


class RErr(Exception):
    def __init__(self, kind):
        super().__init__(kind)
        self.kind = kind


def to_hash_id(values):
    algo = hashlib.sha256()
    for v in values:
        algo.update(hashlib.sha256(v.encode()).digest())
    return algo.hexdigest()


def to_key(*args):
    if len(args) > 1:
        return to_hash_id([to_key(a) for a in args])
    x, = args
    if isinstance(x, str):
        return x
    if isinstance(x, (list, tuple)):
        if not x:
            raise RErr('AssertionError')
        return to_key(*x)
    raise RErr('TypeError')


def call_fn(spec, fname, args):
    """an uninterpreted function, or one given by a table (other arguments give None)"""
    if 'table' in spec:
        for k, v in spec['table']:
            if tuple(json_to_py(k)) == tuple(args):
                return json_to_py(v)
        return None
    return App(fname, tuple(args), ())


class DS:
    """reference dataset: `fields` (names, without ids), ids(), value(field, id)"""

    def __init__(self, fields, ids, value):
        self.fields, self.ids, self.value = list(fields), ids, value


def ref(desc):
    """reference semantics of a dataset pipeline description; raises RErr at 'construction'"""
    k = desc['k']
    if k == 'chain':
        cur = None
        for layer in desc['layers']:
            cur = ref_layer(layer, cur)
        return cur
    return ref_layer(desc, None)


def ref_layer(d, prev):
    k = d['k']
    if k == 'chain':
        cur = prev
        for layer in d['layers']:
            cur = ref_layer(layer, cur)
        return cur
    if k == 'source':
        ids = tuple(d['ids'])
        specs = d['fields']

        def value(f, i):
            if f == 'id':
                return i
            spec = specs[f]
            return call_fn(spec, spec.get('f') or f'{d["cls"]}.{f}', (i,))
        return DS(['id'] + list(specs), lambda: ids, value)
    if k == 'transform':
        specs = d['fields']
        inh = d.get('inherit')

        def inherits(n):
            if n in specs:
                return False
            return n == 'id' or inh is True or (isinstance(inh, list) and n in inh)
        fields = list(specs) + [f for f in prev.fields if inherits(f)]

        def value(f, i):
            if f in specs:
                spec = specs[f]
                args = [prev.value(a, i) for a in spec['args']]
                return call_fn(spec, spec.get('f') or f'{d["cls"]}.{f}', args)
            return prev.value(f, i)
        return DS(fields, prev.ids, value)
    if k in ('filter', 'keep', 'drop'):
        if k == 'filter':
            def pred(i):
                return call_fn(d, d['f'], [prev.value(a, i) for a in d['args']])
        elif k == 'keep':
            def pred(i):
                return prev.value('id', i) in d['ids']
        else:
            def pred(i):
                return prev.value('id', i) not in d['ids']
        return DS(prev.fields, lambda: tuple(i for i in prev.ids() if pred(i)), prev.value)
    if k == 'check_ids':
        def value(f, i):
            if i not in prev.ids():
                raise RErr('KeyError')
            return prev.value(f, i)
        return DS(prev.fields, prev.ids, value)
    if k == 'merge':
        parts = [ref(p) for p in d['parts']]
        owner = {}
        for idx, p in enumerate(parts):
            ids = p.ids()
            if set(ids) & set(owner):
                raise RErr('RuntimeError')
            owner.update({i: idx for i in ids})
        common = [f for f in parts[0].fields if all(f in p.fields for p in parts)]
        ids = tuple(sorted(owner))

        def value(f, i):
            if i not in owner:
                raise RErr('ValueError')
            return parts[owner[i]].value(f, i)
        return DS(common, lambda: ids, value)
    if k == 'groupby':
        by = d['by']

        def key_of(i):
            if isinstance(by, str):
                return to_key(prev.value(by, i))
            if isinstance(by, dict):
                return to_key(call_fn(by, by['f'], [prev.value(a, i) for a in by['args']]))
            return to_key(*[prev.value(b, i) for b in by])
        memo = {}

        def mapping():
            if 'm' not in memo:
                m = {}
                for i in prev.ids():
                    m.setdefault(key_of(i), set()).add(i)
                memo['m'] = m
            return memo['m']

        def value(f, new):
            if f == 'id':
                return new
            m = mapping()
            if new not in m:
                raise RErr('KeyError')
            return {old: prev.value(f, old) for old in sorted(m[new])}
        fields = ['id'] + [f for f in prev.fields if f != 'id']
        if len(fields) == 1:
            raise RErr('RuntimeError')
        return DS(fields, lambda: tuple(sorted(mapping())), value)
    if k == 'split':
        sp = d['split']
        specs = d.get('fields', {})
        inh = d.get('inherit')
        memo = {}

        def mapping():
            if 'm' not in memo:
                m = {}
                for old in prev.ids():
                    pairs = call_fn(sp, sp.get('f') or f'{d["cls"]}.__split__', [prev.value(a, old) for a in sp['args']])
                    for new, part in (pairs or ()):
                        if new in m:
                            raise RErr('AssertionError')
                        m[new] = (old, part)
                memo['m'] = m
            return memo['m']

        def inherits(n):
            return n not in specs and (inh is True or (isinstance(inh, list) and n in inh))
        fields = ['id'] + list(specs) + [f for f in prev.fields if f != 'id' and inherits(f)]

        def value(f, new):
            if f == 'id':
                return new
            m = mapping()
            if new not in m:
                raise RErr('KeyError')
            old, part = m[new]
            if f in specs:
                spec = specs[f]
                args = [part if a == '__part__' else prev.value(a, old) for a in spec['args']]
                return call_fn(spec, spec.get('f') or f'{d["cls"]}.{f}', args)
            return prev.value(f, old)
        return DS(fields, lambda: tuple(sorted(mapping())), value)
    if k == 'join':
        left, right = ref(d['left']), ref(d['right'])
        on, how = list(d['on']), d.get('how', 'inner')
        lf, rf = [f for f in left.fields if f != 'id'], [f for f in right.fields if f != 'id']
        inter = [f for f in lf if f in rf]
        if set(on) - set(inter) or set(inter) - set(on):
            raise RErr('ValueError')
        memo = {}

        def tk(values):
            # `to_key=`: the default, or (key_prefix) a custom injective function of the tuple of key values
            base = values[0] if len(values) == 1 else to_hash_id(values)
            return d['key_prefix'] + base if d.get('key_prefix') else base

        def side_keys(ds):
            seen, out = {}, {}
            for i in ds.ids():
                key = tk(tuple(ds.value(f, i) for f in on))
                if key in seen:
                    raise RErr('ValueError')
                seen[key] = i
                out[key] = i
            return out

        def mapping():
            if 'm' not in memo:
                lk, rk = side_keys(left), side_keys(right)
                inner = {key: (lk[key], rk[key]) for key in lk if key in rk}
                memo['m'] = (inner, {key: v for key, v in lk.items() if key not in rk},
                             {key: v for key, v in rk.items() if key not in lk})
            return memo['m']

        def ids():
            inner, lo, ro = mapping()
            res = set(inner)
            if how in ('left', 'outer'):
                res |= set(lo)
            if how in ('right', 'outer'):
                res |= set(ro)
            return tuple(sorted(res))

        def value(f, key):
            if f == 'id':
                return key
            inner, lo, ro = mapping()
            if f in on:
                if key in inner:
                    return left.value(f, inner[key][0])
                if key in lo:
                    return left.value(f, lo[key])
                if key in ro:
                    return right.value(f, ro[key])
                raise RErr('KeyError')
            side, ds, this, other, idx = ('left', left, lo, ro, 0) if f in lf else ('right', right, ro, lo, 1)
            guarded = (how in ('right', 'outer')) if side == 'left' else (how in ('left', 'outer'))
            if key in inner:
                return ds.value(f, inner[key][idx])
            if key in this:
                return ds.value(f, this[key])
            if key in other:
                if guarded:
                    return None
                raise RErr('KeyError')
            raise RErr('KeyError')
        return DS(['id'] + inter + [f for f in lf if f not in inter] + [f for f in rf if f not in inter], ids, value)
    raise ValueError(k)


# ------------------------------------------------------------------ generator

def gen_source(rng, idx, ids, fields=None, tables=True):
    cls = f'D{idx}'
    fs = {}
    names = fields or rng.sample(['x', 'y', 'z'], rng.randint(1, 3))
    for n in names:
        fs[n] = {'args': ['i']}
    if tables:
        for kf in rng.sample(['k1', 'k2'], rng.choice([1, 1, 2])):
            fs[kf] = {'args': ['i'], 'table': [[[i], rng.choice(KEYS)] for i in UNIVERSE + FOREIGN]}
    return {'k': 'source', 'cls': cls, 'ids': list(ids), 'fields': fs, 'params': {}, 'cargs': {}, 'defaults': {}}


def gen_ids(rng, n_parts, overlap=0.12):
    """id lists for n datasets: mostly disjoint, sometimes overlapping (also between non-adjacent ones), sometimes empty"""
    pool = list(UNIVERSE)
    rng.shuffle(pool)
    out = []
    for k in range(n_parts):
        take = rng.choice([0, 1, 2, 2, 3]) if pool else 0
        ids = [pool.pop() for _ in range(min(take, len(pool)))]
        out.append(ids)
    if n_parts >= 2 and rng.random() < overlap:
        a, b = rng.sample(range(n_parts), 2)
        if out[a]:
            out[b].append(rng.choice(out[a]))
    for ids in out:
        rng.shuffle(ids)   # `ids` need not be sorted
    return out


def gen_dataset(rng, counter, ids, fields=None, p_transform=0.35):
    """a source, possibly followed by a transform"""
    src = gen_source(rng, counter[0], ids, fields)
    counter[0] += 1
    if rng.random() < p_transform:
        names = list(src['fields'])
        tf = {}
        new = rng.choice(['t', 'x', 'y'])
        tf[new] = {'args': rng.sample(names, min(len(names), rng.choice([1, 2])))}
        t = {'k': 'transform', 'cls': f'R{counter[0]}', 'fields': tf, 'params': {}, 'cargs': {}, 'defaults': {},
             'inherit': True}
        counter[0] += 1
        return {'k': 'chain', 'flavour': 'chain', 'layers': [src, t]}
    return src


def gen_pred(rng, fields, counter):
    """a predicate over 1-2 fields (possibly `id`), given by a table over the argument values"""
    fields = [f for f in fields if f == 'id' or f.startswith('k')] or ['id']     # string-valued fields
    args = rng.sample(fields, min(len(fields), rng.choice([1, 1, 2, 2])))
    counter[0] += 1
    return {'k': 'filter', 'f': f'pred{counter[0]}', 'args': args, 'mode': rng.choice(['hash', 'hash', 'true', 'false', 'values', 'values'])}


def finish_pred(p, prev_ref):
    """the table of a predicate is filled once the values of its arguments are known"""
    table = []
    seen = set()
    for i in UNIVERSE + FOREIGN:
        try:
            vals = [prev_ref.value(a, i) for a in p['args']]
        except RErr:
            continue
        key = repr(vals)
        if key in seen:
            continue
        seen.add(key)
        if p['mode'] == 'true':
            r = True
        elif p['mode'] == 'false':
            r = False
        elif p['mode'] == 'values':
            # verdicts that are not bools: kept iff truthy (an empty tuple is falsy, a tuple holding falsy items is truthy)
            zoo = [True, False, 0, 1, 2, '', 'x', None, [], [0], [0, 1], [1], [''], [None], [[]]]
            r = zoo[int(hashlib.sha1((p['f'] + key).encode()).hexdigest(), 16) % len(zoo)]
        else:
            r = int(hashlib.sha1((p['f'] + key).encode()).hexdigest(), 16) % 3 != 0
        from .codec import val_to_json
        table.append([[val_to_json(v) for v in vals], r])
    p['table'] = table


def gen_rel(rng, kind=None, depth=0, counter=None):
    """a dataset pipeline description with one dataset-wide operation on top (possibly nested)"""
    counter = counter if counter is not None else [0]
    kind = kind or rng.choice(['merge', 'filter', 'check_ids', 'groupby', 'join', 'split'])
    if kind == 'split':
        base = gen_rel(rng, 'merge', depth + 1, counter) if rng.random() < 0.25 and depth == 0 else \
            gen_dataset(rng, counter, list(dict.fromkeys(gen_ids(rng, 1)[0] + gen_ids(rng, 1)[0])), p_transform=0.2)
        try:
            base_ref = ref(base)
        except RErr:
            return base
        fields = [f for f in base_ref.fields if f != 'id']
        # the split function is a table over (id, key field): 0..3 parts per entry, sometimes colliding new ids
        sargs = ['id'] + ([f for f in fields if f.startswith('k')][:1] if rng.random() < 0.5 else [])
        collide = rng.random() < 0.12
        # the parts are ints, or LISTS (a list is not a tuple: the fields get exactly the part `__split__` produced)
        list_parts = rng.random() < 0.3
        mk_part = (lambda j: {'app': ['$list', [j, 'p'], [], []]}) if list_parts else (lambda j: j)
        table = []
        seen_keys = set()
        for i in UNIVERSE + FOREIGN:
            try:
                vals = [base_ref.value(a, i) for a in sargs]
            except RErr:
                continue
            if repr(vals) in seen_keys:
                continue
            seen_keys.add(repr(vals))
            nparts = rng.choice([0, 1, 1, 2, 3])
            pairs = [[(f'{i}:{j}' if not (collide and rng.random() < 0.4) else 'dup'), mk_part(j)] for j in range(nparts)]
            if collide and nparts >= 2 and rng.random() < 0.5:
                pairs[1][0] = pairs[0][0]        # the same new id twice within one entry
            table.append([vals, pairs])
        counter[0] += 1
        tf = {}
        for f in rng.sample(fields, min(len(fields), rng.choice([1, 2]))):
            # a field of the transform may read `id`: it is the id of the OLD entry (an ordinary field of the previous layer)
            tf[f] = {'args': rng.choice([[f, '__part__'], [f, '__part__'], [f, 'id', '__part__'], ['id', f]])}
        d = {'k': 'split', 'cls': f'Sp{counter[0]}', 'split': {'args': sargs, 'table': table}, 'fields': tf, 'params': {},
             'cargs': {}, 'defaults': {}}
        r = rng.random()
        if r < 0.4:
            d['inherit'] = True
        elif r < 0.6:
            others = [f for f in fields if f not in tf]
            if others:
                d['inherit'] = rng.sample(others, 1)
        return {'k': 'chain', 'flavour': 'chain', 'layers': [base, d]}
    if kind == 'merge':
        n = rng.choice([1, 2, 2, 3, 3, 4])
        id_lists = gen_ids(rng, n)
        common = rng.sample(['x', 'y', 'z'], rng.randint(1, 2))
        parts = []
        for ids in id_lists:
            extra = [f for f in ['x', 'y', 'z'] if f not in common and rng.random() < 0.4]
            if depth == 0 and rng.random() < 0.15 and len(ids) >= 2:
                half = len(ids) // 2
                inner = {'k': 'merge', 'parts': [gen_dataset(rng, counter, ids[:half], common + extra),
                                                 gen_dataset(rng, counter, ids[half:], common + extra)]}
                parts.append(inner)
            else:
                parts.append(gen_dataset(rng, counter, ids, common + extra))
        return {'k': 'merge', 'parts': parts}
    if kind in ('filter', 'check_ids', 'groupby'):
        base = gen_rel(rng, 'merge', depth + 1, counter) if rng.random() < 0.3 and depth == 0 else \
            gen_dataset(rng, counter, list(dict.fromkeys(gen_ids(rng, 1)[0] + gen_ids(rng, 1)[0])))
        base_ref = None
        try:
            base_ref = ref(base)
        except RErr:
            return base
        fields = [f for f in base_ref.fields]
        layers = [base]
        if kind in ('filter', 'check_ids') and rng.random() < 0.3:
            # the dataset is already guarded: ... >> CheckIds() >> <layers that change ids> >> CheckIds()
            layers.append({'k': 'check_ids'})
        if kind == 'filter':
            renamed = kind == 'filter' and rng.random() < 0.25
            if renamed:
                # a layer that REDEFINES the field `id` (entry 'i3' has the id field 'ri3'): predicates over `id`, keep and drop
                # are about the entry's field, not about the key it is asked by
                counter[0] += 1
                layers.append({'k': 'transform', 'cls': f'RID{counter[0]}', 'params': {}, 'cargs': {}, 'defaults': {}, 'inherit': True,
                               'fields': {'id': {'args': ['id'], 'f': f'RID{counter[0]}.id',
                                                 'table': [[[i], 'r' + i] for i in UNIVERSE + FOREIGN]}}})
            pool_ids = UNIVERSE + (['r' + i for i in UNIVERSE] * 2 if renamed else [])
            for _ in range(rng.choice([1, 1, 2])):
                r = rng.random()
                if r < 0.6:
                    p = gen_pred(rng, fields, counter)
                    finish_pred(p, ref({'k': 'chain', 'layers': layers}))
                    layers.append(p)
                elif r < 0.8:
                    layers.append({'k': 'keep', 'ids': rng.sample(pool_ids, 3 + 3 * renamed), 'form': rng.choice(IDS_FORMS)})
                else:
                    layers.append({'k': 'drop', 'ids': rng.sample(pool_ids, 2 + 3 * renamed), 'form': rng.choice(IDS_FORMS)})
            if rng.random() < 0.4:
                layers.append({'k': 'check_ids'})
        elif kind == 'check_ids':
            if rng.random() < 0.5:
                layers.append({'k': 'keep', 'ids': rng.sample(UNIVERSE, 4), 'form': rng.choice(IDS_FORMS)})
            layers.append({'k': 'check_ids'})
        else:
            keys = [f for f in fields if f.startswith('k')]
            r = rng.random()
            if r < 0.5 and keys:
                by = rng.choice(keys)
            elif r < 0.7 and len(keys) >= 2:
                by = keys[:2]
            elif r < 0.85 and keys:
                counter[0] += 1
                by = {'f': f'by{counter[0]}', 'args': [keys[0]], 'table': [[[k], k + '!'] for k in KEYS]}
            else:
                by = rng.choice([f for f in fields if f != 'id'] or ['id'])   # a symbolic value: not a string -> TypeError
            layers.append({'k': 'groupby', 'by': by})
        return {'k': 'chain', 'flavour': 'chain', 'layers': layers}
    if kind == 'join':
        on = rng.choice([['k1'], ['k1'], ['k1', 'k2']])
        ids_l, ids_r = gen_ids(rng, 1)[0], list(dict.fromkeys(gen_ids(rng, 1)[0] + gen_ids(rng, 1)[0]))
        if rng.random() < 0.12:
            # an entry listed twice in the ids of a side: two rows with the same key tuple
            side = ids_l if rng.random() < 0.5 else ids_r
            if side:
                side.insert(rng.randrange(len(side) + 1), rng.choice(side))
        left = gen_source(rng, counter[0], ids_l, ['x'] if rng.random() < 0.7 else ['x', 'y'])
        counter[0] += 1
        right = gen_source(rng, counter[0], ids_r, ['z'])
        counter[0] += 1
        for s in (left, right):
            for kf in on:
                mode = rng.random()
                tbl = []
                for n, i in enumerate(UNIVERSE + FOREIGN):
                    # mostly unique keys per side; sometimes duplicated
                    v = f'{kf}-{(n * 3 + len(kf)) % 9}' if mode < 0.8 else rng.choice(KEYS)
                    tbl.append([[i], v])
                s['fields'][kf] = {'args': ['i'], 'table': tbl}
            for kf in list(s['fields']):
                if kf.startswith('k') and kf not in on:
                    del s['fields'][kf]
        return {'k': 'join', 'left': left, 'right': right, 'on': on, 'how': rng.choice(['inner', 'left', 'right', 'outer'])}
    raise ValueError(kind)


def observe_rel(builder, layer, fields, query):
    """ids, and every field on every query id: value or exception class; plus the NodeHash of every evaluation"""
    from .codec import val_to_json, exc_name, hash_to_json
    w = builder.world
    out = {}
    try:
        out['ids'] = val_to_json(layer.ids, w)
    except Exception as e:
        out['ids_err'] = exc_name(e)
    try:
        out['dir'] = sorted(dir(layer))
    except Exception as e:
        out['dir_err'] = exc_name(e)
    vals = {}
    for f in fields:
        try:
            fn = layer._compile(f)
        except Exception as e:
            vals[f] = {'compile_err': exc_name(e)}
            continue
        rec = {}
        for i in query:
            mark_ = w.mark()
            try:
                rec[i] = {'ok': val_to_json(fn(i), w)}
            except Exception as e:
                rec[i] = {'err': exc_name(e)}
            # one field call touches one entry: a user function executed for several different arguments within one call means
            # that something dataset-wide (an id mapping) was computed again (`ids` was read before: the mapping exists)
            if 'ids' in out:
                by_fn = {}
                for c_ in w.since(mark_):
                    by_fn.setdefault(c_[0], set()).add(repr(c_[1]))
                wide = {k: len(v) for k, v in by_fn.items() if len(v) >= 3}
                if wide:
                    out.setdefault('wide_calls', []).append([f, i, wide])
        vals[f] = rec
    out['values'] = vals
    # reading ids again, after every field was evaluated (also on unknown ids), gives the same ids and, for the
    # layers that keep their id mapping in memory (Join, GroupBy, Split), executes no user function
    mark = w.mark()
    try:
        again = val_to_json(layer.ids, w)
        if 'ids' in out and again != out['ids']:
            out['ids_changed'] = again
    except Exception as e:
        if 'ids' in out:
            out['ids_changed'] = 'err:' + exc_name(e)
    out['ids_again_calls'] = [c[0] for c in w.since(mark)]
    return out


def ref_observe(r, fields, query):
    from .codec import val_to_json
    out = {}
    try:
        out['ids'] = val_to_json(r.ids())
    except RErr as e:
        out['ids_err'] = e.kind
    out['dir'] = sorted(set(r.fields) | {'ids'})
    vals = {}
    for f in fields:
        if f not in r.fields:
            vals[f] = {'compile_err': 'FieldError'}
            continue
        rec = {}
        for i in query:
            try:
                rec[i] = {'ok': val_to_json(r.value(f, i))}
            except RErr as e:
                rec[i] = {'err': e.kind}
        vals[f] = rec
    out['values'] = vals
    return out
