"""S-GHASH: static graph hashes (C06).  Families of sub-pipelines that differ in one respect (Merge routing, id sets
with the same positional pattern, an upstream function or constructor argument, the predicate's arguments) are placed
under Filter; the predicate graph is built the way Filter builds it; graphs with equal `Graph.hash()` must compute the
same function of the id (measured by calling the real graph on a universe of ids).  The same graphs are extracted and
hashed by the Lean model (`hashGraph`)."""
import copy, json, random
from . import driver, paths, rel
from .pipeline import Builder
from .sym import SymWorld
from .extract import Extractor, Unsupported
from .codec import canon, val_to_json, exc_name, hash_to_json

IDS = [f'i{k}' for k in range(7)]


def base_family(rng):
    """descriptions of sub-pipelines sharing function names"""
    n_parts = rng.choice([1, 2, 2, 3])
    pool = list(IDS)
    rng.shuffle(pool)
    sizes = [rng.randint(1, 2) for _ in range(n_parts)]
    parts_ids, k = [], 0
    for s in sizes:
        parts_ids.append(sorted(pool[k:k + s]))
        k += s
    # constructor arguments incl. pairs with equal builtin hash(): hash(-1) == hash(-2), hash(n) == hash(n + 2**61 - 1)
    cargs = rng.choice([None, 1, 2, -1, 3, 'a', 'tup', 'pairs'])
    cargs = {'tup': [0, 2], 'pairs': [['a', 1]]}.get(cargs, cargs)        # JSON lists are tuples

    def mk(parts_ids, fx=None, carg=cargs, wire=None, fx_part=0, bv=False):
        parts = []
        for j, ids in enumerate(parts_ids):
            src = {'k': 'source', 'cls': f'P{j}', 'ids': ids,
                   'fields': {'x': {'args': ['i'], 'f': (fx if (fx and j == fx_part) else 'P.x') if rng_same else (fx if (fx and j == fx_part) else f'P{j}.x'),
                                    **({'byvalue': True} if (bv and j == fx_part) else {})},
                              'y': {'args': ['i'], 'f': f'P{j}.y'},
                              'kk': {'args': ['i'], 'f': 'P.kk', 'table': [[[i], 'g'] for i in IDS + ['zz']]}},
                   'params': {}, 'cargs': {}, 'defaults': {}}
            if rng_inner:
                # every branch is continued by an instance of ONE Transform class: its edge objects sit at sibling positions
                src = {'k': 'chain', 'flavour': 'chain', 'layers': [src, {'k': 'transform', 'cls': 'TI', 'fields': {'x': {'args': ['x'], 'f': 'TI.x'}},
                                                                         'params': {}, 'cargs': {}, 'defaults': {}, 'inherit': True}]}
            parts.append(src)
        d = {'k': 'merge', 'parts': parts} if len(parts) > 1 or rng_merge else parts[0]
        layers = [d]
        if carg is not None:
            layers.append({'k': 'transform', 'cls': 'T', 'fields': {'x': {'args': ['x', '_k'], 'f': 'T.x'}}, 'params': {},
                           'cargs': {'k': carg}, 'defaults': {}, 'inherit': True})
        return {'k': 'chain', 'flavour': 'chain', 'layers': layers}, (wire or ['x'])
    rng_same = rng.random() < 0.5       # all parts compute x with the same function: only the routing distinguishes them
    rng_merge = rng.random() < 0.5
    rng_inner = rng.random() < 0.4
    variants = [('base',) + mk(parts_ids)]
    # re-route one id inside a fixed id set
    if n_parts >= 2:
        pi = copy.deepcopy(parts_ids)
        src_part = rng.choice([j for j in range(n_parts) if len(pi[j]) >= 1])
        i = pi[src_part].pop(rng.randrange(len(pi[src_part])))
        dst = rng.choice([j for j in range(n_parts) if j != src_part])
        pi[dst] = sorted(pi[dst] + [i])
        if all(pi):
            variants.append(('reroute',) + mk(pi))
        # other id sets with the same positional pattern (shift every id by one)
        if all(int(x[1:]) < 6 for ids in parts_ids for x in ids):
            shifted = [[f'i{int(x[1:]) + 1}' for x in ids] for ids in parts_ids]
            variants.append(('shift',) + mk([sorted(s) for s in shifted]))
    variants.append(('function',) + mk(parts_ids, fx='P.x#2'))
    if n_parts >= 2:
        variants.append(('function-last',) + mk(parts_ids, fx='P.x#3', fx_part=n_parts - 1))
    if cargs is not None:
        # the same Transform class (shared edge objects), another instance argument
        ck = json.dumps(cargs) if isinstance(cargs, list) else cargs
        other = {1: 6, 2: 7, -1: -2, 3: 3 + 2 ** 61 - 1, 'a': 'b', '[0, 2]': [2, 0], '[["a", 1]]': [['a', 2]]}[ck]
        variants.append(('argument',) + mk(parts_ids, carg=other))
        # the same content in a container of another type: a list is not a tuple, a dict is not a tuple of pairs
        variants.append(('argument-type',) + mk(parts_ids, carg={
            1: '1', 2: 2.5, -1: -1.5, 3: None, 'a': ('a',), '[0, 2]': {'app': ['$list', [0, 2], [], []]},
            '[["a", 1]]': {'d': [['a'], [1]]}}[ck]))
    variants.append(('predicate-args',) + mk(parts_ids, wire=['y']))
    variants.append(('predicate-args2',) + mk(parts_ids, wire=['x', 'y']))
    # a hash_by_value field computed by two DIFFERENT local closures of one factory: equal module and qualified name, other captured
    # constant (pickled by value).  The static hash must tell them apart
    variants.append(('byvalue-twin-a',) + mk(parts_ids, fx='TW.a', bv=True))
    variants.append(('byvalue-twin-b',) + mk(parts_ids, fx='TW.b', bv=True))
    variants.append(('same',) + mk(parts_ids))        # a rebuild: must agree with `base`
    return variants


def _twin(tag):
    """local closures of one factory: the same `__module__` and `__qualname__`, another captured constant"""
    from .sym import App

    def x(i):
        return App(tag, (i,), ())
    return x


def run_family(seed):
    rng = random.Random(seed)
    variants = base_family(rng)
    world = SymWorld()
    for tag in ('TW.a', 'TW.b'):
        f = _twin(tag)
        world.fns[(tag, ('i',))] = f
        world.names[id(f)] = tag
    b = Builder(world)
    b.shared = {}
    paths.use_repo()
    from connectome import Filter
    from connectome.engine import Details
    recs = []
    do_group = rng.random() < 0.5
    for what, desc, wire in variants:
        try:
            # shared layer objects: identical sub-descriptions are one object (transforms reused on different sources)
            layers = []
            for l in desc['layers']:
                key = json.dumps(l, sort_keys=True)
                if l['k'] == 'transform':
                    if key not in b.shared:
                        b.shared[key] = b.layer(l)
                    layers.append(b.shared[key])
                else:
                    layers.append(b.layer(l))
            base = layers[0]
            for x in layers[1:]:
                base = base >> x
            pred = world.fn('pred' + ''.join(wire), params=wire)
            flt = Filter(pred)
            g = flt._make_graph(base._container, Details('Filter'))
            h = g.hash()
            table = {}
            for i in IDS + ['zz']:
                try:
                    table[i] = canon(val_to_json(g(i), world))
                except Exception as e:
                    table[i] = 'ERR ' + exc_name(e)
            rec_ = {'what': what, 'desc': desc, 'wire': wire, 'hash': h, 'table': table, 'graph': g}
            # the same sub-pipeline under GroupBy (one group): the digest of a grouped field keys what GroupBy derives from it
            try:
                if not (do_group and what in ('base', 'function', 'function-last', 'argument', 'reroute', 'same')):
                    raise LookupError('skipped')
                from connectome import GroupBy
                from .suite_pickle import digest_of
                grouped = base >> GroupBy('kk')
                fx_ = grouped._compile('x')
                rec_['g_digest'] = digest_of(fx_, ['g'])
                rec_['g_value'] = canon(val_to_json(fx_('g'), world))
            except LookupError:
                pass
            except Exception as e:
                rec_['g_err'] = exc_name(e)
            recs.append(rec_)
        except Exception as e:
            recs.append({'what': what, 'desc': desc, 'wire': wire, 'error': exc_name(e) + ' ' + str(e)[:100]})
    problems = []
    groups = {}
    for r in recs:
        if 'hash' not in r:
            continue
        try:
            groups.setdefault(r['hash'].value, []).append(r)
        except TypeError:       # an unhashable constructor argument (a list, a dict) in the hash: equal to nothing else here
            groups[('unhashable', len(groups))] = [r]
    pairs = 0
    for key, rs in groups.items():
        pairs += len(rs) - 1
        for r in rs[1:]:
            if r['table'] != rs[0]['table']:
                diff = next(i for i in r['table'] if r['table'][i] != rs[0]['table'][i])
                problems.append({'a': {'what': rs[0]['what'], 'desc': rs[0]['desc'], 'wire': rs[0]['wire']},
                                 'b': {'what': r['what'], 'desc': r['desc'], 'wire': r['wire']},
                                 'msg': f'equal static graph hashes ({rs[0]["what"]} vs {r["what"]}) but different functions of the id: '
                                        f'at {diff!r}: {rs[0]["table"][diff][:120]} vs {r["table"][diff][:120]}'})
                break
    ggroups = {}
    for r in recs:
        if 'g_digest' in r:
            ggroups.setdefault(r['g_digest'], []).append(r)
    for key, rs in ggroups.items():
        for r in rs[1:]:
            if r['g_value'] != rs[0]['g_value']:
                problems.append({'a': {'what': rs[0]['what'], 'desc': rs[0]['desc']}, 'b': {'what': r['what'], 'desc': r['desc']},
                                 'msg': f'under GroupBy: equal digests of the grouped field x ({rs[0]["what"]} vs {r["what"]}) but different values: '
                                        f'{rs[0]["g_value"][:120]} vs {r["g_value"][:120]}'})
                break
    # a rebuild must not change the static hash (C07 aspect, cheap to check here)
    byw = {r['what']: r for r in recs if 'hash' in r}
    if 'base' in byw and 'same' in byw and byw['base']['hash'] != byw['same']['hash']:
        problems.append({'a': {'desc': byw['base']['desc']}, 'msg': 'rebuilding the same sub-pipeline changed its static graph hash'})
    # model correspondence: extract the graphs and let the Lean model hash them (one request per graph: the model walks
    # all the nodes it is given)
    model_req, model_real = [], []
    for r in recs:
        if 'graph' not in r:
            continue
        try:
            ex = Extractor(world)
            out, ins = ex.graph(r['graph'])
            leaves = [i for i, n in enumerate(ex.nodes) if n['edge'] is None]
            model_req.append({'op': 'vm', **ex.case(leaves), 'steps': [{'t': 'hash_graph', 'out': out}]})
            model_real.append(hash_to_json(r['hash'].value, world))
        except Unsupported:
            pass
    return {'variants': len(recs), 'pairs': pairs, 'groups': len(groups), 'problems': problems,
            'model_req': model_req, 'model_real': model_real, 'kinds': [r['what'] for r in recs],
            'errors': [r['error'] for r in recs if 'error' in r]}


def run_shard(args):
    seed, n = args
    fams = [run_family(seed * 50021 + i) for i in range(n)]
    reqs = [q for f in fams for q in f['model_req']]
    answers = driver.run_lines(reqs)
    model_bad = []
    it = iter(answers)
    for f in fams:
        for real in f['model_real']:
            ans = next(it)
            if 'error' in ans:
                model_bad.append({'diff': ans['error']})
                continue
            m = ans['results'][0]
            if canon({'ok': real}) != canon(m['h']):
                model_bad.append({'real': real, 'model': m['h']})
    stats = {'families': len(fams), 'variants': sum(f['variants'] for f in fams), 'groups': sum(f['groups'] for f in fams),
             'equal_hash_pairs': sum(f['pairs'] for f in fams), 'build_errors': sum(len(f['errors']) for f in fams), 'kinds': {}}
    for f in fams:
        for k in f['kinds']:
            stats['kinds'][k] = stats['kinds'].get(k, 0) + 1
    problems = [p for f in fams for p in f['problems']]
    return stats, problems, model_bad, (fams[0]['errors'][:2] if fams else [])


def run_option_family(seed):
    """C05 at the dataset level: one base dataset under dataset-wide layers that differ in ONE option (keep vs drop of the same ids,
    another id list, another grouping key, another join mode, with / without CheckIds): the persistent digest of `ids` (and of a
    field for a fixed id) may be equal for two pipelines only if the values are equal."""
    rng = random.Random(seed)
    from .suite_pickle import digest_of
    paths.use_repo()
    world = SymWorld()
    b = Builder(world)
    n = rng.randint(4, 7)
    ids = [f'i{k}' for k in range(n)]
    rng.shuffle(ids)
    tab = lambda f, vals: {'args': ['i'], 'f': f, 'table': [[[i], vals[j % len(vals)]] for j, i in enumerate(sorted(ids) + ['zz'])]}
    base = {'k': 'source', 'cls': 'OF', 'ids': ids, 'params': {}, 'cargs': {}, 'defaults': {},
            'fields': {'x': {'args': ['i'], 'f': 'OF.x'}, 'kk': tab('OF.kk', ['g', 'h']), 'k2': tab('OF.k2', ['g', 'h', 'h'])}}
    other = {'k': 'source', 'cls': 'OR', 'ids': [f'j{k}' for k in range(3)], 'params': {}, 'cargs': {}, 'defaults': {},
             'fields': {'kk': {'args': ['i'], 'f': 'OR.kk', 'table': [[['j0'], 'g'], [['j1'], 'q'], [['j2'], 'g2']]}, 'z': {'args': ['i'], 'f': 'OR.z'}}}
    a = sorted(rng.sample(ids, rng.randint(1, n - 1)))
    a2 = sorted(set(ids) - set(a)) if rng.random() < 0.5 else sorted(rng.sample(ids, rng.randint(1, n - 1)))
    left = dict(base, fields={'x': base['fields']['x'], 'kk': {'args': ['i'], 'f': 'OF.kk1', 'table': [[[i], 'u' + i] for i in ids]}})
    left['cls'] = 'OL'
    variants = {
        'keep(A)': [base, {'k': 'keep', 'ids': a}], 'drop(A)': [base, {'k': 'drop', 'ids': a}],
        'keep(B)': [base, {'k': 'keep', 'ids': a2}], 'drop(B)': [base, {'k': 'drop', 'ids': a2}],
        'keep(A)+check': [base, {'k': 'keep', 'ids': a}, {'k': 'check_ids'}],
        'groupby(kk)': [base, {'k': 'groupby', 'by': 'kk'}], 'groupby(k2)': [base, {'k': 'groupby', 'by': 'k2'}],
        'plain': [base],
    }
    for how in ('inner', 'left', 'right', 'outer'):
        variants[f'join({how})'] = [{'k': 'join', 'left': dict(left, fields={'x': left['fields']['x'], 'kk': {'args': ['i'], 'f': 'OF.kkj', 'table': [[[i], (['g', 'q', 'w'] + ['u' + x for x in ids])[j]] for j, i in enumerate(ids)]}}),
                                     'right': other, 'on': ['kk'], 'how': how}]
    # a Join whose two sides compute a field with the SAME function (of their own ids): the grouping by the left copy and by the
    # right copy are different functions of the joined id
    lab = lambda ids_, vals: {'args': ['i'], 'f': 'OJ.lab', 'table': [[[i], v] for i, v in zip(ids_, vals)] + [[['zz'], 'p']]}
    la, lb = ['a0', 'a1'], ['b0', 'b1']
    all_lab = {'args': ['i'], 'f': 'OJ.lab', 'table': [[['a0'], 'p'], [['a1'], 'p'], [['b0'], 'q'], [['b1'], 'r']]}
    jl = {'k': 'source', 'cls': 'OJL', 'ids': la, 'params': {}, 'cargs': {}, 'defaults': {},
          'fields': {'x': all_lab, 'kk': {'args': ['i'], 'f': 'OJL.kk', 'table': [[['a0'], 'k0'], [['a1'], 'k1']]}}}
    jr = {'k': 'source', 'cls': 'OJR', 'ids': lb, 'params': {}, 'cargs': {}, 'defaults': {},
          'fields': {'y': all_lab, 'kk': {'args': ['i'], 'f': 'OJR.kk', 'table': [[['b0'], 'k0'], [['b1'], 'k1']]}}}
    selfjoin = {'k': 'join', 'left': jl, 'right': jr, 'on': ['kk'], 'how': 'inner'}
    variants['selfjoin>>groupby(x)'] = [selfjoin, {'k': 'groupby', 'by': 'x'}]
    variants['selfjoin>>groupby(y)'] = [selfjoin, {'k': 'groupby', 'by': 'y'}]
    # the same function bound to the key in one pipeline and to a constructor argument whose VALUE is the name of the key ('id') in
    # the other: under a dataset-wide layer these are different functions of the entry
    xt = [[[i, 'id'], 'gh'[j % 2]] for j, i in enumerate(sorted(ids))] + [[['id', i], 'g'] for i in sorted(ids)] + \
        [[['zz', 'id'], 'g'], [['id', 'zz'], 'g']]
    variants["groupby(x(id, _d)), d='id'"] = [base, {'k': 'transform', 'cls': 'OK1', 'fields': {'x': {'args': ['u', 'v'], 'posbind': ['id', '_d'], 'f': 'OK.x', 'table': xt}},
                                                     'params': {}, 'cargs': {'d': 'id'}, 'defaults': {}}, {'k': 'groupby', 'by': 'x'}]
    variants["groupby(x(_c, id)), c='id'"] = [base, {'k': 'transform', 'cls': 'OK2', 'fields': {'x': {'args': ['u', 'v'], 'posbind': ['_c', 'id'], 'f': 'OK.x', 'table': xt}},
                                                     'params': {}, 'cargs': {'c': 'id'}, 'defaults': {}}, {'k': 'groupby', 'by': 'x'}]
    recs, problems, mem = [], [], []
    for what, layers in variants.items():
        try:
            p = b.layer({'k': 'chain', 'flavour': 'chain', 'layers': layers})
            fn = p._compile('ids')
            recs.append((what, 'ids', digest_of(fn, []), canon(val_to_json(fn(), world))))
            mem.append((what + ' / ids', fn.get_hash()[0], recs[-1][3]))
            if layers[-1]['k'] == 'groupby':
                # a grouped field for one group key: its node hash contains no per-connection lambda
                fx = p._compile('x')
                for gk in ('g', 'p', 'q'):
                    try:
                        mem.append((what + f' / x({gk!r})', fx.get_hash(gk)[0], canon(val_to_json(fx(gk), world))))
                    except Exception:
                        pass
        except Exception as e:
            recs.append((what, 'ids', 'ERR:' + what, 'ERR ' + exc_name(e)))
    groups = {}
    for what, f, dg, val in recs:
        groups.setdefault(dg, []).append((what, val))
    for dg, rs in groups.items():
        for what, val in rs[1:]:
            if val != rs[0][1]:
                problems.append({'a': rs[0][0], 'b': what, 'base': base, 'A': a, 'B': a2,
                                 'msg': f'equal persistent digests of `ids` for {rs[0][0]} and {what} over one dataset, but different values: '
                                        f'{rs[0][1][:100]} vs {val[:100]}'})
                break
    # in memory (the key of RAM caches and of every cache object shared by two pipelines) node hashes are compared with `==`
    for i in range(len(mem)):
        for j in range(i + 1, len(mem)):
            if mem[i][2] != mem[j][2] and mem[i][1] == mem[j][1] and not problems:
                problems.append({'a': mem[i][0], 'b': mem[j][0], 'base': base,
                                 'msg': f'equal node hashes (NodeHash ==) for {mem[i][0]} and {mem[j][0]} over one dataset, but different values: '
                                        f'{mem[i][2][:100]} vs {mem[j][2][:100]}'})
    return {'variants': len(recs), 'pairs': sum(len(r) - 1 for r in groups.values())}, problems


def run_byvalue_groups(seed):
    """GroupBy over a field hashed BY VALUE whose values repeat across entries: two groups whose members have pairwise equal values
    are different dicts (the old ids are the keys), so their node hashes differ (C05) and a cache behind the GroupBy returns each
    group's own dict (C04)"""
    from .suite_pickle import digest_of
    rng = random.Random(seed)
    n = rng.randint(1, 3)
    ids = [f'i{k}' for k in range(2 * n)] + ([f'i{2 * n}'] if rng.random() < 0.5 else [])
    group = {i: ('p1' if k < n else 'p2' if k < 2 * n else 'p3') for k, i in enumerate(ids)}
    vals = {i: f'v{k % n}' for k, i in enumerate(ids)}          # the k-th member of p1 and of p2 have the same value
    src = {'k': 'source', 'cls': 'BG', 'ids': ids, 'params': {}, 'cargs': {}, 'defaults': {},
           'fields': {'t': {'args': ['i'], 'f': 'BG.t', 'byvalue': True, 'table': [[[i], vals[i]] for i in ids]},
                      'kk': {'args': ['i'], 'f': 'BG.kk', 'table': [[[i], group[i]] for i in ids]},
                      'x': {'args': ['i'], 'f': 'BG.x'}}}
    derived = {'k': 'transform', 'cls': 'BD', 'fields': {'u': {'args': ['t'], 'f': 'BD.u'}}, 'params': {}, 'cargs': {}, 'defaults': {}, 'inherit': True}
    cache = rng.choice([None, {'k': 'ram', 'names': None, 'size': None}, {'k': 'ram', 'names': ['t', 'u'], 'size': 3}])
    layers = [src] + ([derived] if rng.random() < 0.5 else []) + [{'k': 'groupby', 'by': 'kk'}] + ([cache] if cache else [])
    problems = []
    world = SymWorld()
    b = Builder(world)
    paths.use_repo()
    try:
        p = b.layer({'k': 'chain', 'flavour': 'chain', 'layers': layers})
        for field in (['t', 'u'] if len(layers) > 2 and layers[1] is derived else ['t']):
            f = p._compile(field)
            obs = {}
            for g in ['p1', 'p2', 'p1']:
                obs.setdefault(g, []).append((digest_of(f, [g]), canon(val_to_json(f(g), world))))
            want = {g: sorted(i for i in ids if group[i] == g) for g in ('p1', 'p2')}
            for g in ('p1', 'p2'):
                for dg, v in obs[g]:
                    keys = sorted(json.loads(v)['d'][0]) if v.startswith('{"d"') else None
                    if keys != want[g]:
                        problems.append({'kind': 'c04', 'layers': [l['k'] for l in layers],
                                         'msg': f'{field}({g!r}) behind {[l["k"] for l in layers[1:]]} returned the entries {keys}, the group holds {want[g]}'})
                        return problems
            if obs['p1'][0][0] == obs['p2'][0][0]:
                problems.append({'kind': 'c05', 'layers': [l['k'] for l in layers],
                                 'msg': f'grouped field {field}: the groups p1 {want["p1"]} and p2 {want["p2"]} (members with pairwise equal by-value hashes) '
                                        f'have the same node hash, their values differ: {obs["p1"][0][1][:80]} vs {obs["p2"][0][1][:80]}'})
    except Exception as e:
        problems.append({'kind': 'c04', 'layers': [l['k'] for l in layers], 'msg': 'GroupBy over a by-value field raised ' + exc_name(e) + ': ' + str(e)[:120]})
    return problems
