"""S-COMPILE (C01): tuple requests through the real `GraphCompiler` - the values must come back as a tuple in request order,
whatever the same compiler compiled before (permutations, repetitions, sub- and supersets of earlier requests)."""
import random
from . import paths
from .gen_vm import gen_graph, rand_const
from .oracle_vm import Oracle, OErr
from .real_vm import RealVM, json_to_py
from .codec import val_to_json, canon, exc_name

KINDS = {'fn': 10, 'ident': 2, 'const': 2, 'product': 2, 'barrier': 1, 'byvalue': 2, 'switch': 2, 'switch_branch': 1,
         'switch_missing': 1, 'check_ids': 1}


VIRTUAL = ['a0', 'zz']        # inherited names no node defines: requested in a tuple they are new inputs of the function (one sorts first, one last)


def build_compiler(case, world, share=False):
    """the real GraphCompiler over Node objects and bound edges of the described graph; with `share`, nodes whose edges have equal
    descriptions are bound through ONE edge object (what `EdgesBag.freeze` and class-level edges do when a layer is used twice)"""
    paths.use_repo()
    import json
    from connectome.engine import Node, GraphCompiler
    rv = RealVM(case, world)              # only to reuse its edge factory through TreeNodes
    nodes = [Node(n['name']) for n in case['nodes']]
    edges = []
    pool = {}
    for i, n in enumerate(case['nodes']):
        if n['edge'] is not None:
            tree_edge = rv.nodes[i].edge
            if share:
                tree_edge = pool.setdefault(json.dumps([n['edge'], len(n['parents'])], sort_keys=True), tree_edge)
            edges.append(tree_edge.bind([nodes[p] for p in n['parents']], nodes[i]))
    inputs = [nodes[i] for i in case['inputs']]
    outputs = [nodes[i] for i, n in enumerate(case['nodes']) if n['edge'] is not None]
    return GraphCompiler(inputs, outputs, edges, set(VIRTUAL), set())


def gen_requests(rng, names):
    reqs = []
    for _ in range(rng.randint(3, 7)):
        r = rng.random()
        if reqs and r < 0.3:
            base = list(rng.choice(reqs))
            rng.shuffle(base)                       # a permutation of an earlier request
            reqs.append(tuple(base))
        elif reqs and r < 0.45:
            base = list(rng.choice(reqs))
            reqs.append(tuple(base + [rng.choice(base)]))   # an earlier request with a repeated field
        elif reqs and r < 0.55:
            base = list(rng.choice(reqs))
            reqs.append(tuple(base[:max(1, len(base) - 1)]))
        else:
            k = rng.randint(1, min(4, len(names)))
            reqs.append(tuple(rng.choice(names) for _ in range(k)))
    return reqs


def run_case(seed):
    rng = random.Random(seed)
    case = gen_graph(rng, max_nodes=10, malformed=0, kinds=KINDS, unique_fns=False)
    case['impure'] = []
    from .sym import SymWorld
    world = SymWorld()
    for name, v in case.get('const_fns', []):
        world.consts[name] = json_to_py(v)
    names = [n['name'] for n in case['nodes'] if n['edge'] is not None]
    index = {n['name']: i for i, n in enumerate(case['nodes'])}
    if not names:
        return None, 0
    try:
        compiler = build_compiler(case, world)
    except Exception as e:
        return None, 0
    env = {n['name']: rand_const(rng) for i, n in enumerate(case['nodes']) if i in case['inputs']}
    for k, v in list(env.items()):
        if isinstance(v, list):
            env[k] = 'a'          # hashable inputs only
    reqs = gen_requests(rng, names)
    # tuple requests that contain a virtual name (at most once: a repeated virtual name is rejected)
    for r_ in list(reqs):
        if len(r_) >= 1 and rng.random() < 0.4:
            v = rng.choice(VIRTUAL)
            pos_ = rng.randrange(len(r_) + 1)
            reqs.append(tuple(r_[:pos_]) + (v,) + tuple(r_[pos_:]))
    env.update({'a0': 'va', 'zz': 'vz'})
    evaluations = 0
    for req in reqs:
        o = Oracle(case, env)
        want, errs = [], set()
        for name in req:
            if name in VIRTUAL:
                want.append(env[name])
                continue
            try:
                want.append(o.value(index[name]))
            except OErr as e:
                errs |= e.kinds
        try:
            g = compiler.compile(req if len(req) > 1 or rng.random() < 0.5 else req[0])
            params = list(g.__signature__.parameters)
            if any(n in VIRTUAL for n in req) and params != sorted(params):
                return {'case': case, 'env': env, 'requests': reqs, 'request': req,
                        'msg': f'request {req}: the parameters of the compiled function are {params}, not ordered by name (a positional call binds other inputs)'}, evaluations
            if rng.random() < 0.5:
                got = g(*[json_to_py(env[p]) for p in sorted(params)])        # positionally, in the order of the names
            else:
                got = g(**{p: json_to_py(env[p]) for p in params})
            res = ('ok', got)
        except Exception as e:
            res = ('err', exc_name(e))
        evaluations += 1
        if errs:
            if res[0] == 'ok':
                return {'case': case, 'env': env, 'requests': reqs, 'request': req,
                        'msg': f'request {req} returned a value although evaluating the user functions raises {sorted(errs)}'}, evaluations
            continue
        if res[0] == 'err':
            return {'case': case, 'env': env, 'requests': reqs, 'request': req,
                    'msg': f'request {req} raised {res[1]}; evaluating the user functions gives a value'}, evaluations
        got = res[1]
        if not isinstance(got, tuple) or (len(req) == 1 and not isinstance(want[0], tuple) and got == want[0]):
            got_t = (got,)
        else:
            got_t = got
        # a one-element request compiled from the bare name returns the bare value
        want_c = [canon(val_to_json(v, world)) for v in want]
        cands = [[canon(val_to_json(v, world)) for v in got_t]]
        if len(req) == 1:
            cands.append([canon(val_to_json(got, world))])
        if want_c not in cands:
            return {'case': case, 'env': env, 'requests': reqs, 'request': req,
                    'msg': f'request {req} (after {reqs[:reqs.index(req)]}) returned {cands[0]} but the fields in request order are {want_c}'}, evaluations
    return None, evaluations


def run_shared_impure(seed):
    """one edge object bound several times (also to the same parents), pure and impure: every binding is a node of its own - an
    impure function is invoked once per reached binding and the draws are different values"""
    rng = random.Random(seed)
    from .sym import SymWorld, Imp
    from .gen_vm import reachable
    n_in = rng.randint(0, 2)
    nodes = [{'name': f'x{i}', 'edge': None, 'parents': []} for i in range(n_in)]
    protos = []
    for j in range(rng.randint(1, 3)):
        arity = rng.choice([0, 0, 1]) if n_in else 0
        imp = rng.random() < 0.7
        inner = {'k': 'fn', 'f': ('r' if imp else 'f') + str(j), 'kw': [], 'silent': []}
        protos.append(({'k': 'impure', 'inner': inner} if imp else inner, [rng.randrange(n_in) for _ in range(arity)], imp))
    draws = []
    for j in range(rng.randint(2, 5)):
        e, parents, imp = rng.choice(protos)
        nodes.append({'name': f'd{j}', 'edge': e, 'parents': list(parents)})
        draws.append(len(nodes) - 1)
    for j in range(rng.randint(1, 3)):
        ps = [rng.choice(draws) for _ in range(rng.randint(1, 3))]
        nodes.append({'name': f'p{j}', 'edge': {'k': 'fn', 'f': f'g{j}', 'kw': [], 'silent': []}, 'parents': ps})
    case = {'nodes': nodes, 'inputs': list(range(n_in)), 'stores': [], 'impure': sorted({e['inner']['f'] for e, _, imp in protos if imp})}
    world = SymWorld()
    try:
        compiler = build_compiler(case, world, share=True)
    except Exception:
        return None, 0
    env = {f'x{i}': i for i in range(n_in)}
    names = [n['name'] for n in nodes if n['edge'] is not None]
    index = {n['name']: i for i, n in enumerate(nodes)}
    evals = 0
    for _ in range(3):
        req = tuple(rng.sample(names, rng.randint(1, min(3, len(names)))))
        reach = set()
        for name in req:
            reach |= reachable(case, index[name])
        want_calls = {}
        for i in reach:
            e = nodes[i]['edge']
            if e is not None and e['k'] == 'impure':
                want_calls[e['inner']['f']] = want_calls.get(e['inner']['f'], 0) + 1
        mark = world.mark()
        try:
            g = compiler.compile(req)
            got = g(**{p: env[p] for p in g.__signature__.parameters})
        except Exception as e:
            return {'case': case, 'request': req, 'msg': f'request {req} over shared edge objects raised {exc_name(e)}'}, evals
        evals += 1
        calls = {}
        for f, pos, kw in world.since(mark):
            if f in case['impure']:
                calls[f] = calls.get(f, 0) + 1
        if calls != want_calls:
            return {'case': case, 'request': req, 'kind': 'shared-edge-object',
                    'msg': f'request {req}: the impure functions were invoked {calls} times but the requested fields reach {want_calls} '
                           f'bindings of them (one edge object bound several times: every binding is a computation of its own)'}, evals
        direct = [(name, v) for name, v in zip(req, got) if isinstance(v, Imp)]
        for a in range(len(direct)):
            for b2 in range(a + 1, len(direct)):
                if direct[a][0] != direct[b2][0] and direct[a][1].serial == direct[b2][1].serial:
                    return {'case': case, 'request': req, 'kind': 'shared-edge-object',
                            'msg': f'fields {direct[a][0]} and {direct[b2][0]} are two bindings of an impure function but returned the same draw'}, evals
    return None, evals


def run_shard(args):
    seed, n = args
    bad, evals = [], 0
    for i in range(n):
        b, e = run_case(seed * 104723 + i)
        evals += e
        if b:
            bad.append(b)
        b, e = run_shared_impure(seed * 7919 + i)
        evals += e
        if b:
            bad.append(b)
    return evals, bad


def run_instance_requests(seed):
    """`pipeline(id)[names]` / `pipeline(id).name` (Instance access): one request for several names - properties among them - is ONE call of one
    compiled function: the values of `_compile(names)(id)`, every shared upstream function executed once (C01, C03)"""
    from .pipeline import Builder
    from .sym import SymWorld
    rng = random.Random(seed)
    world = SymWorld()
    b = Builder(world)
    imp = rng.random() < 0.5
    src = {'k': 'source', 'cls': 'IS', 'ids': ['a', 'b', 'c'], 'params': {'_l': {'args': [], 'impure': imp}}, 'cargs': {}, 'defaults': {},
           'fields': {'m': {'args': ['_l'], 'meta': True}, 'x': {'args': ['i', '_l']}, 'y': {'args': ['i']}}}
    t = {'k': 'transform', 'cls': 'IT', 'fields': {'z': {'args': ['x']}}, 'params': {}, 'cargs': {}, 'defaults': {}, 'inherit': True}
    problems = []
    try:
        pipe = b.layer({'k': 'chain', 'flavour': 'chain', 'layers': [src, t]})
        for names in [('m', 'x'), ('x', 'z'), ('m', 'z', 'y'), ('ids', 'x')]:
            mark = world.mark()
            want = pipe._compile(names)('b')
            ref_calls = sorted(c[0] for c in world.since(mark))
            mark = world.mark()
            got = pipe('b')[names]
            calls = sorted(c[0] for c in world.since(mark))
            strip = (lambda v: canon(val_to_json(v, world))) if not imp else (lambda v: len(v))
            if calls != ref_calls:
                problems.append({'names': names, 'msg': f'pipeline("b")[{names}] executed {calls}, one call of the compiled function for {names} executes {ref_calls}'})
                break
            if strip(tuple(got)) != strip(tuple(want)):
                problems.append({'names': names, 'msg': f'pipeline("b")[{names}] returned {canon(val_to_json(tuple(got), world))[:150]}, the compiled function returns '
                                                        f'{canon(val_to_json(tuple(want), world))[:150]}'})
                break
            if imp and 'm' in names and 'x' in names:
                # the property and the field of one request see ONE draw of the impure parameter
                jm = json_draws(val_to_json(tuple(got), world))
                if len(jm) != 1:
                    problems.append({'names': names, 'msg': f'one request pipeline("b")[{names}] saw {len(jm)} different draws of the impure parameter `_l`'})
                    break
    except Exception as e:
        problems.append({'msg': 'Instance scenario raised ' + exc_name(e) + ': ' + str(e)[:160]})
    return problems


def json_draws(j, acc=None):
    """the serial numbers of the impure draws inside an encoded value"""
    acc = set() if acc is None else acc
    if isinstance(j, dict):
        if 'imp' in j:
            acc.add(j['imp'][1])
            for x in j['imp'][3] + j['imp'][5]:
                json_draws(x, acc)
        else:
            for v in j.values():
                json_draws(v, acc)
    elif isinstance(j, list):
        for x in j:
            json_draws(x, acc)
    return acc


def run_hash_digest(seed):
    """`HashDigest(names, algorithm)` (return_value=False): asking for the digest of a field executes no user function upstream of it - the hash
    of an ordinary field needs no value; with `return_value=True` every function runs once (C03: only what the request needs)"""
    from .pipeline import Builder
    from .sym import SymWorld
    paths.use_repo()
    import connectome as c
    rng = random.Random(seed)
    world = SymWorld()
    b = Builder(world)
    src = {'k': 'source', 'cls': 'HD', 'ids': ['a', 'b'], 'params': {'_p': {'args': ['i']}}, 'cargs': {}, 'defaults': {},
           'fields': {'x': {'args': ['i', '_p']}, 'y': {'args': ['i']}}}
    t = {'k': 'transform', 'cls': 'HT', 'fields': {'z': {'args': ['x', 'y']}}, 'params': {}, 'cargs': {}, 'defaults': {}, 'inherit': True}
    layers = [src, t] + ([{'k': 'ram', 'names': None, 'size': None}] if rng.random() < 0.4 else [])
    problems = []
    try:
        base = b.layer({'k': 'chain', 'flavour': 'chain', 'layers': layers})
        names = rng.choice([['z'], ['x', 'z'], ['y']])
        only = base >> c.HashDigest(names, rng.choice(['sha256', 'blake2b', None]))
        mark = world.mark()
        for n in names:
            getattr(only, n)('a')
        ran = sorted({c_[0] for c_ in world.since(mark)})
        if ran:
            problems.append({'names': names, 'msg': f'HashDigest({names}) without return_value: asking for the digests executed {ran}; the hashes of these fields need no value'})
        both = base >> c.HashDigest(names, 'sha256', return_value=True)
        mark = world.mark()
        out = getattr(both, names[-1])('b')
        calls = [c_[0] for c_ in world.since(mark)]
        if len(calls) != len(set(calls)):
            problems.append({'names': names, 'msg': f'HashDigest(..., return_value=True): one call executed {calls} (a function more than once)'})
    except Exception as e:
        problems.append({'msg': 'HashDigest scenario raised ' + exc_name(e) + ': ' + str(e)[:150]})
    return problems
