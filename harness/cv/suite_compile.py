"""S-COMPILE (C01): tuple requests through the real `GraphCompiler` - the values must come back as a tuple in request order,
whatever the same compiler compiled before (permutations, repetitions, sub- and supersets of earlier requests)."""
import random
from . import paths
from .gen_vm import gen_graph, rand_const
from .oracle_vm import Oracle, OErr
from .real_vm import RealVM, json_to_py
from .codec import val_to_json, canon, exc_name

KINDS = {'fn': 10, 'ident': 2, 'const': 2, 'product': 2, 'barrier': 1, 'byvalue': 2, 'switch': 2, 'switch_branch': 1,
         'switch_missing': 1, 'check_ids': 1}


def build_compiler(case, world):
    """the real GraphCompiler over Node objects and bound edges of the described graph"""
    paths.use_repo()
    from connectome.engine import Node, GraphCompiler
    rv = RealVM(case, world)              # only to reuse its edge factory through TreeNodes
    nodes = [Node(n['name']) for n in case['nodes']]
    edges = []
    for i, n in enumerate(case['nodes']):
        if n['edge'] is not None:
            tree_edge = rv.nodes[i].edge
            edges.append(tree_edge.bind([nodes[p] for p in n['parents']], nodes[i]))
    inputs = [nodes[i] for i in case['inputs']]
    outputs = [nodes[i] for i, n in enumerate(case['nodes']) if n['edge'] is not None]
    return GraphCompiler(inputs, outputs, edges, set(), set())


def gen_requests(rng, names):
    reqs = []
    for _ in range(rng.randint(3, 7)):
        r = rng.random()
        if reqs and r < 0.3:
            base = list(rng.choice(reqs))
            rng.shuffle(base)                       # a permutation of an earlier request
            reqs.append(tuple(base))
        elif reqs and r < 0.45:
            base = list(rng.choice(reqs))
            reqs.append(tuple(base + [rng.choice(base)]))   # an earlier request with a repeated field
        elif reqs and r < 0.55:
            base = list(rng.choice(reqs))
            reqs.append(tuple(base[:max(1, len(base) - 1)]))
        else:
            k = rng.randint(1, min(4, len(names)))
            reqs.append(tuple(rng.choice(names) for _ in range(k)))
    return reqs


def run_case(seed):
    rng = random.Random(seed)
    case = gen_graph(rng, max_nodes=10, malformed=0, kinds=KINDS, unique_fns=False)
    case['impure'] = []
    from .sym import SymWorld
    world = SymWorld()
    for name, v in case.get('const_fns', []):
        world.consts[name] = json_to_py(v)
    names = [n['name'] for n in case['nodes'] if n['edge'] is not None]
    index = {n['name']: i for i, n in enumerate(case['nodes'])}
    if not names:
        return None, 0
    try:
        compiler = build_compiler(case, world)
    except Exception as e:
        return None, 0
    env = {n['name']: rand_const(rng) for i, n in enumerate(case['nodes']) if i in case['inputs']}
    for k, v in list(env.items()):
        if isinstance(v, list):
            env[k] = 'a'          # hashable inputs only
    reqs = gen_requests(rng, names)
    evaluations = 0
    for req in reqs:
        o = Oracle(case, env)
        want, errs = [], set()
        for name in req:
            try:
                want.append(o.value(index[name]))
            except OErr as e:
                errs |= e.kinds
        try:
            g = compiler.compile(req if len(req) > 1 or rng.random() < 0.5 else req[0])
            single = not isinstance(g.__signature__, type(None)) and len(req) == 1 and False
            got = g(**{p: json_to_py(env[p]) for p in g.__signature__.parameters})
            res = ('ok', got)
        except Exception as e:
            res = ('err', exc_name(e))
        evaluations += 1
        if errs:
            if res[0] == 'ok':
                return {'case': case, 'env': env, 'requests': reqs, 'request': req,
                        'msg': f'request {req} returned a value although evaluating the user functions raises {sorted(errs)}'}, evaluations
            continue
        if res[0] == 'err':
            return {'case': case, 'env': env, 'requests': reqs, 'request': req,
                    'msg': f'request {req} raised {res[1]}; evaluating the user functions gives a value'}, evaluations
        got = res[1]
        if not isinstance(got, tuple) or (len(req) == 1 and not isinstance(want[0], tuple) and got == want[0]):
            got_t = (got,)
        else:
            got_t = got
        # a one-element request compiled from the bare name returns the bare value
        want_c = [canon(val_to_json(v, world)) for v in want]
        cands = [[canon(val_to_json(v, world)) for v in got_t]]
        if len(req) == 1:
            cands.append([canon(val_to_json(got, world))])
        if want_c not in cands:
            return {'case': case, 'env': env, 'requests': reqs, 'request': req,
                    'msg': f'request {req} (after {reqs[:reqs.index(req)]}) returned {cands[0]} but the fields in request order are {want_c}'}, evaluations
    return None, evaluations


def run_shard(args):
    seed, n = args
    bad, evals = [], 0
    for i in range(n):
        b, e = run_case(seed * 104723 + i)
        evals += e
        if b:
            bad.append(b)
    return evals, bad
