"""S-PICKLE (C19): compiled functions of pipelines over the listed layer kinds are pickled and unpickled, in-process
and in a fresh interpreter; signature, values on all ids and persistent digests must be preserved, RAM caches must
start empty, disk caches must point at the same storage."""
import hashlib, json, os, pickle, random, shutil, subprocess, sys, tempfile
from . import paths
from .pipeline import Builder
from .sym import SymWorld
from .codec import canon, val_to_json, exc_name

IDS = ['i1', 'i2', 'i3', 'i4']


def pipelines(seed, root):
    """(name, description, fields to compile) over the layer kinds of the property"""
    rng = random.Random(seed)
    src = {'k': 'source', 'cls': 'PS', 'ids': IDS, 'fields': {'a': {'args': ['i']}, 'b': {'args': ['i']},
                                                              'k': {'args': ['i'], 'table': [[[i], 'uv'[n % 2]] for n, i in enumerate(IDS)]}},
           'params': {}, 'cargs': {}, 'defaults': {}}
    src2 = {'k': 'source', 'cls': 'PS2', 'ids': ['j1', 'j2'], 'fields': {'a': {'args': ['i']}, 'b': {'args': ['i']},
                                                                         'k': {'args': ['i'], 'table': [[['j1'], 'u'], [['j2'], 'v']]}},
            'params': {}, 'cargs': {}, 'defaults': {}}
    tr = {'k': 'transform', 'cls': 'PT', 'fields': {'c': {'args': ['a', 'b']}, 'd': {'args': ['a', '_p']}},
          'params': {'_p': {'args': ['_n']}}, 'cargs': {'n': rng.choice([1, 2])}, 'defaults': {}, 'inherit': True}
    kw = {'k': 'transform', 'cls': 'PK', 'fields': {'e': {'args': ['u', 'name'], 'posbind': ['a'], 'kwbind': {'name': 'b'}}},
          'params': {}, 'cargs': {}, 'defaults': {}, 'inherit': True}

    # equal leaves at several sites of one hash: constructor arguments that are None / equal to each other, next to Silent arguments
    # (a Silent position is hashed as a leaf None as well): the persistent digest must not depend on which of them are one object
    nn = {'k': 'transform', 'cls': 'PN', 'fields': {'c': {'args': ['a', '_n', 'b'], 'silent': ['b']}, 'd': {'args': ['a', '_n', '_m']},
                                                    'e': {'args': ['b', '_m', 'a'], 'silent': ['a', 'b']}},
          'params': {}, 'cargs': {'n': None, 'm': rng.choice([None, 0, 'x'])}, 'defaults': {}, 'inherit': True}

    # a constructor argument that feeds BOTH the ids and a field a dataset-wide layer reads: the constant's leaf hash sits in the hash of the ids
    # and in the static hash the Filter / GroupBy keeps (one object before pickling)
    pw = {'k': 'transform', 'cls': 'PW', 'fields': {'ids': {'args': ['ids', '_k'], 'f': 'PW.ids', 'table': [[[IDS, 2], IDS[:3]], [[IDS, 3], IDS[1:]]], 'meta': True},
                                                    'x': {'args': ['a', '_k'], 'f': 'PW.x'}},
          'params': {}, 'cargs': {'k': rng.choice([2, 3])}, 'defaults': {}, 'inherit': True}

    def ch(*ls):
        return {'k': 'chain', 'flavour': 'chain', 'layers': list(ls)}
    flt = {'k': 'filter', 'f': 'pp', 'args': ['k'], 'table': [[['u'], True], [['v'], False]]}
    flt2 = {'k': 'filter', 'f': 'pa', 'args': ['a'], 'table': []}
    grp = {'k': 'groupby', 'by': 'k'}
    chk = {'k': 'check_ids'}
    mrg = {'k': 'merge', 'parts': [src, src2]}
    # several dataset-wide layers in one pipeline (each keeps its own static graph hash), under persistent caches;
    # the random ones vary with the seed
    wide = [flt, flt2, chk, {'k': 'keep', 'ids': ['i1', 'i2', 'i3', 'j1']}]
    combos = [
        ('filter-groupby', ch(src, flt, grp), ['ids', 'a']),
        ('filter-groupby-disk', ch(src, flt2, grp, {'k': 'disk', 'names': ['a'], 'root': 0}), ['a']),
        ('filter-filter', ch(src, flt, flt2), ['ids', 'a']),
        ('merge-filter-groupby', ch(mrg, flt2, grp), ['ids', 'a']),
        ('filter-checkids-groupby-columns', ch(src, flt2, chk, grp, {'k': 'columns', 'names': ['b'], 'root': 1, 'shard': 2}), ['b']),
    ]
    for r in range(3):
        ls = [rng.choice([src, mrg])] + [rng.choice(wide) for _ in range(rng.randint(1, 3))]
        if rng.random() < 0.6:
            ls.append(grp)
        if rng.random() < 0.5:
            ls.append({'k': 'disk', 'names': ['a'], 'root': 0})
        combos.append((f'random-{r}', ch(*ls), ['a', 'ids']))
    return combos + [
        ('source', src, ['a', ('a', 'b')]),
        ('transform', ch(src, tr), ['c', 'd', ('c', 'd', 'a')]),
        ('apply', ch(src, {'k': 'apply', 'fns': {'a': 'ap.a'}}), ['a']),
        ('nested-chain', ch(ch(src, tr), {'k': 'apply', 'fns': {'c': 'ap.c'}}), ['c']),
        # one by-value callable (a partial) behind two edges, both upstream of a persistent cache: the digest depends on the sharing
        ('apply-shared-partial-disk', ch(src, {'k': 'apply', 'fns': {'a': 'x', 'b': 'x'}, 'partial': 'ap.shared'}, tr,
                                         {'k': 'disk', 'names': ['c'], 'root': 0}), ['c']),
        ('apply-shared-partial-columns', ch(src, {'k': 'apply', 'fns': {'a': 'x', 'b': 'x'}, 'partial': 'ap.shared'}, tr,
                                            {'k': 'columns', 'names': ['c'], 'root': 1, 'shard': 2}), ['c']),
        ('kw-binding', ch(src, kw), ['e']),
        ('parametrised-ids-filter', ch(src, pw, {'k': 'filter', 'f': 'ppx', 'args': ['x']}), ['ids', 'x']),
        ('parametrised-ids-groupby-disk', ch(src, pw, {'k': 'groupby', 'by': 'k'}, {'k': 'disk', 'names': ['x'], 'root': 0}), ['x', 'ids']),
        ('none-args-silent', ch(src, nn), ['c', 'd', 'e', ('c', 'e')]),
        ('none-args-silent-disk', ch(src, nn, {'k': 'disk', 'names': ['c', 'e'], 'root': 0}), ['c', 'e']),
        ('merge', ch({'k': 'merge', 'parts': [src, src2]}, tr), ['c', 'ids']),
        # ONE layer object (one set of edge objects) at several places of the graph: in both branches of a Merge, twice in a chain
        ('merge-shared-transform', {'k': 'merge', 'parts': [ch(src, tr), ch(src2, tr)]}, ['c', 'd', 'a']),
        ('transform-twice', ch(src, tr, dict(tr, fields={'c': {'args': ['c', 'd']}, 'd': {'args': ['d', '_p']}}), tr), ['c', 'd']),
        # a dataset without entries between two others: the routing table has no row for its branch
        ('merge-empty-middle', ch({'k': 'merge', 'parts': [src, dict(src2, cls='PSE', ids=[]), src2]}, tr), ['c', 'a', 'ids', ('a', 'c')]),
        ('merge-empty-first', ch({'k': 'merge', 'parts': [dict(src2, cls='PSE', ids=[]), src, src2]}), ['a', 'ids']),
        ('filter', ch(src, {'k': 'filter', 'f': 'pp', 'args': ['k'], 'table': [[['u'], True], [['v'], False]]}), ['ids', 'a']),
        ('filter-kw', ch(src, kw, {'k': 'filter', 'f': 'pe', 'args': ['e'], 'table': []}), ['ids']),
        ('filter-keep', ch(src, {'k': 'keep', 'ids': ['i1', 'i3']}), ['ids', 'a']),
        ('filter-drop', ch(src, {'k': 'drop', 'ids': ['i1']}), ['ids']),
        ('check-ids', ch(src, {'k': 'check_ids'}), ['a']),
        ('groupby', ch(src, {'k': 'groupby', 'by': 'k'}), ['ids', 'a']),
        ('groupby-kw', ch(src, kw, {'k': 'groupby', 'by': 'k'}), ['e']),
        ('ram', ch(src, tr, {'k': 'ram', 'names': None, 'size': None}), ['c', ('c', 'd')]),
        ('lru', ch(src, tr, {'k': 'ram', 'names': ['c'], 'size': 2}), ['c']),
        ('disk', ch(src, tr, {'k': 'disk', 'names': ['c', 'd'], 'root': 0}), ['c', 'd']),
        ('columns', ch(src, tr, {'k': 'columns', 'names': ['c'], 'root': 1, 'shard': 2}), ['c']),
    ]


def digest_of(fn, inputs):
    from tarn.pickler import dumps
    h, _ = fn.get_hash(*inputs)
    return hashlib.sha256(dumps(h.value)).hexdigest()[:16]


def ram_caches(fn):
    """every MemoryCache reachable from the compiled function's graph (also those kept inside dataset-wide edges)"""
    from connectome.cache import MemoryCache
    seen, out, stack = set(), [], [fn.output]
    while stack:
        n = stack.pop()
        if id(n) in seen or n.is_leaf:
            continue
        seen.add(id(n))
        e = n.edge
        for attr in ('cache', 'ram'):
            c = getattr(e, attr, None)
            if isinstance(c, MemoryCache):
                out.append(c)
        inner = getattr(e, 'edge', None)
        stack.extend(n.parents)
    return out


def observe_fn(world, fn, ids):
    import inspect
    sig = list(inspect.signature(fn).parameters)
    vals, digs = {}, {}
    for i in ids if sig else [None]:
        args = [i] * len(sig)
        try:
            vals[str(i)] = canon(val_to_json(fn(*args), world))
        except Exception as e:
            vals[str(i)] = 'ERR ' + exc_name(e)
        try:
            digs[str(i)] = digest_of(fn, args)
        except Exception as e:
            digs[str(i)] = 'ERR ' + exc_name(e)
    return {'sig': sig, 'values': vals, 'digests': digs}


def run_all(seed, in_child=None):
    """parent: builds, observes, pickles, unpickles in-process, compares; writes the pickles for the child.
    child (in_child = directory): rebuilds the same world (functions by name), loads the pickles, observes."""
    os.makedirs(paths.SCRATCH, exist_ok=True)
    scratch = in_child or tempfile.mkdtemp(prefix='cv-pickle-', dir=paths.SCRATCH)
    roots = [os.path.join(scratch, 'disk'), os.path.join(scratch, 'columns')]
    world = SymWorld()
    b = Builder(world, roots=roots)
    b.object_pool = {}        # equal descriptions of transforms are ONE layer object
    results, problems = {}, []
    try:
        for name, desc, fields in pipelines(seed, scratch):
            try:
                layer = b.layer(desc)
            except Exception as e:
                problems.append({'pipeline': name, 'msg': f'building raises {exc_name(e)}'})
                continue
            for f in fields:
                key = name + ':' + (f if isinstance(f, str) else ','.join(f))
                fn = layer._compile(f)
                if not hasattr(fn, 'get_hash'):
                    continue
                ids = IDS + ['j1', 'u', 'v']
                path = os.path.join(scratch, hashlib.sha1(key.encode()).hexdigest()[:12] + '.pkl')
                if in_child:
                    if not os.path.exists(path):
                        continue
                    try:
                        g = pickle.load(open(path, 'rb'))
                        results[key] = observe_fn(world, g, ids)
                    except Exception as e:
                        results[key] = {'load_err': exc_name(e) + ': ' + str(e)[:100]}
                    continue
                before = observe_fn(world, fn, ids)       # this also populates the caches
                try:
                    data = pickle.dumps(fn)
                except Exception as e:
                    results[key] = {'dump_err': exc_name(e)}
                    problems.append({'pipeline': name, 'field': f, 'kind': 'not-picklable',
                                     'msg': f'{name}: the compiled function of {f!r} cannot be pickled: {exc_name(e)}: {str(e)[:120]}'})
                    continue
                open(path, 'wb').write(data)
                g = pickle.loads(data)
                empty = [len(c._cache) for c in ram_caches(g)]
                if any(empty):
                    problems.append({'pipeline': name, 'field': f, 'msg': f'{name}: RAM caches of the unpickled function hold {empty} entries'})
                mark = world.mark()
                after = observe_fn(world, g, ids)
                recomputed = len(world.since(mark))
                if ram_caches(fn) and name in ('ram', 'lru') and recomputed == 0:
                    problems.append({'pipeline': name, 'field': f, 'msg': f'{name}: the unpickled function recomputed nothing: its RAM cache was not empty'})
                if after != before:
                    what = next(k for k in before if before[k] != after[k])
                    problems.append({'pipeline': name, 'field': f, 'msg': f'{name}: {what} of {f!r} changed after pickling'})
                results[key] = before
                # pickling is an observation: a function that is pickled BEFORE its first use (fresh layer objects, nothing in RAM)
                # behaves afterwards like one that never was
                try:
                    fresh = Builder(world, roots=roots).layer(desc)._compile(f)
                    pickle.dumps(fresh)
                    later = observe_fn(world, fresh, ids)
                    if later != before:
                        what = next(k for k in before if before[k] != later[k])
                        bad = next((i for i in before[what] if before[what][i] != later[what].get(i)), None) if isinstance(before[what], dict) else None
                        problems.append({'pipeline': name, 'field': f, 'kind': 'original-changed',
                                         'msg': f'{name}: after pickle.dumps the ORIGINAL function of {f!r} differs in {what}'
                                                + (f' at {bad!r}: {str(later[what].get(bad))[:80]}' if bad is not None else '')})
                except Exception as e:
                    problems.append({'pipeline': name, 'field': f, 'kind': 'original-changed',
                                     'msg': f'{name}: using a function after it was pickled raised {exc_name(e)}'})
    finally:
        if not in_child:
            # the child runs before the scratch directory is removed (see run_check)
            pass
    return scratch, results, problems


CHILD = r'''
import sys, json
sys.path.insert(0, %(harness)r)
from cv import suite_pickle
_, results, _ = suite_pickle.run_all(%(seed)d, in_child=%(scratch)r)
print(json.dumps(results))
'''


def run_check(seed):
    scratch, results, problems = run_all(seed)
    try:
        code = CHILD % {'harness': os.path.join(paths.VERIF, 'harness'), 'seed': seed, 'scratch': scratch}
        p = subprocess.run(['/venv/bin/python', '-c', code], stdout=subprocess.PIPE, stderr=subprocess.PIPE, timeout=600,
                           env=dict(os.environ, PYTHONHASHSEED='7', PYTHONDONTWRITEBYTECODE='1'))
        try:
            child = json.loads(p.stdout.decode().strip().splitlines()[-1])
        except Exception:
            problems.append({'msg': 'the fresh interpreter failed: ' + p.stderr.decode()[-300:]})
            child = {}
        for key, before in results.items():
            if 'dump_err' in before or key not in child:
                continue
            c = child[key]
            if 'load_err' in c:
                problems.append({'pipeline': key, 'msg': f'{key}: unpickling in a fresh interpreter fails: {c["load_err"]}'})
            elif c != before:
                what = next(k for k in before if before[k] != c.get(k))
                problems.append({'pipeline': key, 'msg': f'{key}: {what} differs in a fresh interpreter after unpickling'})
    finally:
        shutil.rmtree(scratch, ignore_errors=True)
    stats = {'functions': len(results), 'picklable': sum(1 for r in results.values() if 'dump_err' not in r),
             'values': sum(len(r.get('values', {})) for r in results.values())}
    return stats, problems
