"""S-VM: engine-level correspondence between vm.py/edges.py/graph.py and CM.Model.VM, plus direct oracles."""
import json, random, hashlib
from . import driver
from .codec import canon
from .gen_vm import gen_graph, gen_steps, shape_stats, reachable
from .real_vm import RealVM


def case_request(case, steps):
    return {'op': 'vm', 'nodes': case['nodes'], 'inputs': case['inputs'], 'stores': case['stores'],
            'impure': case['impure'], 'const_fns': case.get('const_fns', []), 'steps': steps}


def log_key(log):
    return sorted(canon(c) for c in log)


def compare_step(st, real, model):
    """Returns a list of (field, real, model) differences on API-level observables."""
    diffs = []
    t = st['t']
    if t == 'clear':
        return diffs
    if real.get('valid', True) != model.get('valid', True):
        diffs.append(('valid', real.get('valid', True), model.get('valid', True)))
        return diffs
    if not real.get('valid', True):
        return diffs
    if t == 'hash_graph':
        if canon(real['h']) != canon(model['h']):
            diffs.append(('hash_graph', real['h'], model['h']))
        return diffs
    if t == 'sig':
        if real['sig'] != model['sig']:
            diffs.append(('sig', real['sig'], model['sig']))
        return diffs
    # two-phase form: the whole hash is computed first, so when several nodes fail, another error than in a plain call may surface first;
    # the values are compared when both return (the oracle judges which errors may surface)
    two_phase_err = st.get('two_phase') and ('err' in real['r'] or 'err' in model['r'])
    if canon(real['r']) != canon(model['r']) and not two_phase_err:
        diffs.append(('value' if t == 'call' else 'hash', real['r'], model['r']))
    if t == 'call' and real['sig'] != model['sig']:
        diffs.append(('sig', real['sig'], model['sig']))
    # two-phase form (get_hash, then get_value): the hash of the output is always computed, so by-value functions upstream of a
    # cache hit run although a plain call would not need them; the log is judged by the oracle (once, only needed), not the model
    if not st.get('two_phase') and log_key(real['log']) != log_key(model['log']):
        diffs.append(('log', real['log'], model['log']))
    if t == 'call' and 'sizes' in real and real['sizes'] != model.get('sizes'):
        diffs.append(('sizes', real['sizes'], model.get('sizes')))
    return diffs


def has_silent(case):
    def sil(e):
        return bool(e) and (bool(e.get('silent')) or sil(e.get('inner')))
    return any(sil(n['edge']) for n in case['nodes'])


def run_case_real(case, steps):
    return RealVM(case).run(steps)


def generate(seed, n, max_nodes=18, kinds=None, corpus=(), unique_fns=False):
    rng = random.Random(seed)
    cases = [(c['case'], c['steps']) for c in corpus]
    for _ in range(n):
        case = gen_graph(rng, max_nodes=max_nodes, kinds=kinds, unique_fns=unique_fns)
        steps = gen_steps(rng, case)
        if rng.random() < 0.1:
            # an input whose name is `self` (or another name the calling convention might capture); calls bind inputs by keyword
            new = rng.choice(['self', 'self', 'args', 'kwargs', 'cls'])
            for nd in case['nodes']:
                if nd['edge'] is None and nd['name'] == 'x0':
                    nd['name'] = new
            for st in steps:
                if 'env' in st and 'x0' in st['env']:
                    st['env'] = {(new if k == 'x0' else k): v for k, v in st['env'].items()}
        cases.append((case, steps))
    return cases


def run_suite(seed, n, max_nodes=18, kinds=None, corpus=(), unique_fns=False):
    """Returns dict(cases=..., results=[(case, steps, real, model, diffs)], stats=...)."""
    cases = generate(seed, n, max_nodes, kinds, corpus, unique_fns)
    reqs = [case_request(c, s) for c, s in cases]
    answers = driver.run_lines(reqs)
    out = []
    stats = {'cases': 0, 'steps': 0, 'calls': 0, 'errors': {}, 'kinds': {}, 'nontrivial': 0, 'distinct': set(),
             'model_errors': 0, 'den_mismatch': 0, 'sizes': {},
             'thm_instances': 0, 'thm_contradicted': 0, 'thm_hyp_false': 0,
             'cached_thm_instances': 0, 'cached_thm_contradicted': 0, 'static_instances': 0, 'static_vs_real_mismatch': 0, 'decode_instances': 0, 'decode_vs_real_mismatch': 0, 'decode_bad': []}
    for (case, steps), ans in zip(cases, answers):
        stats['cases'] += 1
        real = run_case_real(case, steps)
        if 'error' in ans:
            stats['model_errors'] += 1
            out.append((case, steps, real, None, [(-1, 'driver', None, ans['error'])]))
            continue
        model = ans['results']
        diffs = []
        for i, (st, r, m) in enumerate(zip(steps, real, model)):
            for d in compare_step(st, r, m):
                diffs.append((i,) + d)
            stats['steps'] += 1
            if st['t'] in ('call', 'hash'):
                stats['calls'] += 1
                inner, shared, kinds_ = shape_stats(case, st['out'])
                for k in kinds_:
                    stats['kinds'][k] = stats['kinds'].get(k, 0) + 1
                b = min(inner // 4 * 4, 20)
                stats['sizes'][b] = stats['sizes'].get(b, 0) + 1
                if 'err' in r.get('r', {}):
                    e = r['r']['err']
                    stats['errors'][e] = stats['errors'].get(e, 0) + 1
                if inner >= 3 and shared >= 1:
                    key = hashlib.sha1(json.dumps([case['nodes'], st], sort_keys=True).encode()).hexdigest()
                    if key not in stats['distinct']:
                        stats['distinct'].add(key)
                        stats['nontrivial'] += 1
                # the model's own theorem: machine result = denotation (diagnostic only)
                if 'den' in m and 'fail_at' not in st and not has_silent(case) and canon(m['den']) != canon(m['r']):
                    stats['den_mismatch'] += 1
                # instances of CM.C01.compiled_value / compiled_hash: where their hypotheses hold (evaluated by the
                # driver on this very graph) the machine result must be the denotation, or a scheduled user exception
                if m.get('graph_ok') and m.get('call_ok'):
                    stats['thm_instances'] += 1
                    user = isinstance(m['r'].get('err'), str) and m['r']['err'].startswith('user:') and st.get('fail_at')
                    if not user and canon(m['den']) != canon(m['r']):
                        stats['thm_contradicted'] += 1
                elif 'graph_ok' in m:
                    stats['thm_hyp_false'] += 1
                # instances of CM.C04.full_spec_along_history with the faithfulness hypothesis discharged by C05: graphs with
                # cache edges that are plain, on exact (disk-like) stores only, after any history of the same case
                if m.get('cached_ok') and m.get('call_ok') and not m.get('graph_ok'):
                    stats['cached_thm_instances'] += 1
                    user = isinstance(m['r'].get('err'), str) and m['r']['err'].startswith('user:') and st.get('fail_at')
                    if not user and canon(m['den']) != canon(m['r']):
                        stats['cached_thm_contradicted'] += 1
                # instances of CM.C05.hash_determines_value against the REAL value: on a plain graph the value the real
                # code returns must be decode(hash of the output), the hash being compared with the real one in hash steps
                # instances of CM.C06.static_hash_determines_value against the REAL value: evalG(input, static graph hash)
                if st['t'] == 'call' and m.get('static_decoded') is not None and 'ok' in r.get('r', {}):
                    stats['static_instances'] += 1
                    if canon(m['static_decoded']) != canon(r['r']['ok']):
                        stats['static_vs_real_mismatch'] += 1
                        if len(stats['decode_bad']) < 3:
                            stats['decode_bad'].append({'case': case, 'step': st, 'real': r['r'], 'static_decoded': m['static_decoded']})
                if st['t'] == 'call' and m.get('decoded') is not None and 'ok' in r.get('r', {}):
                    stats['decode_instances'] += 1
                    if canon(m['decoded']) != canon(r['r']['ok']):
                        stats['decode_vs_real_mismatch'] += 1
                        if len(stats['decode_bad']) < 3:
                            stats['decode_bad'].append({'case': case, 'step': st, 'real': r['r'], 'decoded': m['decoded']})
        out.append((case, steps, real, model, diffs))
    stats['distinct'] = len(stats['distinct'])
    return {'results': out, 'stats': stats}
