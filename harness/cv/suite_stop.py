"""S-STOP: a user function that raises an exception of a class the library (or Python's iterator protocol) uses for its
own control flow - StopIteration - below dataset-wide layers and column caches.  Whatever a user function raises must reach
the caller; it must never be taken for the end of an iteration (truncated ids, truncated shards stored in a cache)."""
import os, shutil, tempfile
from . import paths
from .pipeline import Builder
from .sym import SymWorld, UserFault, UserFaultStop
from .codec import canon, val_to_json, exc_name

IDS = ['i0', 'i1', 'i2', 'i3', 'i4']


def chain_has_user_fault(e):
    seen = 0
    while e is not None and seen < 8:
        if isinstance(e, UserFault):
            return True
        e = e.__cause__ or e.__context__
        seen += 1
    return False


def classify(call, world):
    """-> ('value', json) | ('user', name) | ('chained', class) | ('other', class)"""
    try:
        v = call()
        return 'value', canon(val_to_json(v, world))
    except BaseException as e:      # StopIteration subclasses are Exceptions; be safe
        if isinstance(e, UserFault):
            return 'user', exc_name(e)
        if chain_has_user_fault(e):
            return 'chained', type(e).__name__
        return 'other', type(e).__name__ + ': ' + str(e)[:100]


def scenario(kind, fail_index, root=None):
    """build Source(x, k) >> <kind>; the user function the layer evaluates per id raises at its `fail_index`-th call"""
    world = SymWorld()
    b = Builder(world, roots=[root] if root else None) if root else Builder(world)
    src = {'k': 'source', 'cls': 'ST', 'ids': IDS, 'params': {}, 'cargs': {}, 'defaults': {},
           'fields': {'x': {'args': ['i'], 'f': 'ST.x'}, 'k': {'args': ['i'], 'f': 'ST.k', 'table': [[[i], 'uv'[n % 2]] for n, i in enumerate(IDS)]}}}
    if kind == 'filter':
        top = {'k': 'filter', 'f': 'stop.pred', 'args': ['x'], 'table': []}
        watched, field = 'stop.pred', 'ids'
    elif kind == 'groupby':
        top = {'k': 'groupby', 'by': 'k'}
        watched, field = 'ST.k', 'ids'
    elif kind == 'columns':
        top = {'k': 'columns', 'names': ['x'], 'root': 0, 'shard': None}
        watched, field = 'ST.x', 'x'
    else:
        top = {'k': 'transform', 'cls': 'STT', 'fields': {'y': {'args': ['x']}}, 'params': {}, 'cargs': {}, 'defaults': {}, 'inherit': True}
        watched, field = 'ST.x', 'y'
    layer = b.layer({'k': 'chain', 'flavour': 'chain', 'layers': [src, top]})
    # count the calls of the watched function: the fail_index-th raises
    state = {'n': 0}
    real_append = world.log.append

    class Log(list):
        def append(self, item):
            list.append(self, item)
            if item[0] == watched:
                state['n'] += 1
                if state['n'] == fail_index:
                    world.fail_at = {world.serial - 1}     # the serial of the call being logged
    world.log = Log(world.log)
    world.fault_class = UserFaultStop
    if field == 'ids':
        first = classify(lambda: layer.ids, world)
        calls = [first]
    else:
        fn = layer._compile(field)
        calls = [classify(lambda i=i: fn(i), world) for i in IDS[:3]]
    # afterwards, without failures: nothing of the failed computation may have been kept
    world.fail_at, world.fault_class = set(), None
    state['n'] = 10 ** 9
    if field == 'ids':
        later = [classify(lambda: b.layer({'k': 'chain', 'flavour': 'chain', 'layers': [src, top]}).ids, world)]
    else:
        fn2 = b.layer({'k': 'chain', 'flavour': 'chain', 'layers': [src, top]})._compile(field)
        later = [classify(lambda i=i: fn2(i), world) for i in IDS[:3]]
    return calls, later


def run(kind):
    """-> problems: list of {'kind', 'severity': 'swallowed' | 'class-changed', 'msg'}"""
    problems = []
    os.makedirs(paths.SCRATCH, exist_ok=True)
    for fail_index in (1, 2, 3):
        root = tempfile.mkdtemp(prefix='cv-stop-', dir=paths.SCRATCH) if kind == 'columns' else None
        try:
            calls, later = scenario(kind, fail_index, root)
        except Exception as e:
            problems.append({'kind': kind, 'severity': 'harness', 'msg': f'{kind}: scenario raised {exc_name(e)}: {str(e)[:120]}'})
            continue
        finally:
            if root:
                shutil.rmtree(root, ignore_errors=True)
        raised = [c for c in calls if c[0] != 'value']
        if not raised:
            problems.append({'kind': kind, 'severity': 'swallowed', 'fail_index': fail_index,
                             'msg': f'{kind}: the user function raised StopIteration at its call #{fail_index}, but every call returned a value: '
                                    f'{[c[1][:60] for c in calls]} - the exception was taken for the end of an iteration'})
            continue
        for c in raised:
            if c[0] == 'other':
                problems.append({'kind': kind, 'severity': 'swallowed', 'fail_index': fail_index,
                                 'msg': f'{kind}: after a user StopIteration at call #{fail_index} the caller got {c[1]} (not the user exception, not chained to it)'})
            elif c[0] == 'chained':
                problems.append({'kind': kind, 'severity': 'class-changed', 'fail_index': fail_index,
                                 'msg': f'{kind}: a user StopIteration reaches the caller as {c[1]} (the user exception is only its __cause__)'})
        for c in later:
            if c[0] != 'value':
                problems.append({'kind': kind, 'severity': 'swallowed', 'fail_index': fail_index,
                                 'msg': f'{kind}: after the failed computation a later, failure-free evaluation raises {c[1]}: something of the failed computation was kept'})
                break
    return problems
