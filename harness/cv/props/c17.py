"""C17: GroupBy (and Split) re-key a dataset as an exact partition / expansion."""
from .relcommon import run_rel, replay_rel

RULE = ('datasets (sources, transforms, merges) grouped by one key field, two key fields (hash ids), a callable, or a '
        'non-string field (TypeError); ids and every field on all universe ids, group keys and a foreign id compared with '
        'CM.Model.Rel and the reference dict comprehension; Split layers whose __split__ is a table over (id[, key field]) yielding '
        '0-3 parts per entry, sometimes colliding new ids (between entries and within one entry), own fields over (field, __part__) and '
        'inherited fields, over sources, transforms and merges. Non-trivial: >= 2 new ids')


def run(tier, seed, res, lean):
    run_rel('C17', ['groupby', 'split'], tier, seed, res, lean, RULE)
    # the container GroupBy._prepare_container builds against CM.Model.GroupBag (the node-level theorems node_groupby_* are about its edges)
    from .. import suite_factory
    from ..par import pmap
    from ..runner import Violation
    outs = pmap(suite_factory.run_group_shard, [(seed * 1789 + i + 1, 12 if tier == 'quick' else 80) for i in range(16)])
    bad = [b for o in outs for b in o[1]]
    res.coverage['groupby_containers'] = sum(o[0]['groups'] for o in outs)
    res.coverage['groupby_rejected_previous'] = sum(sum(o[0]['errors'].values()) for o in outs)
    if bad:
        res.violations.append(Violation(
            'c17-groupby-container-correspondence',
            f'the container the real GroupBy builds and CM.Model.GroupBag.groupByBag differ: {str({k: v for k, v in bad[0].items() if k != "desc"})[:300]}',
            {'suite': 'S-FACTORY/group', 'theorems': [t for t in lean['theorems'] if 'node_' in t], **bad[0]}, found_input=False))


replay = replay_rel
