"""C17: GroupBy (and Split) re-key a dataset as an exact partition / expansion."""
from .relcommon import run_rel, replay_rel

RULE = ('datasets (sources, transforms, merges) grouped by one key field, two key fields (hash ids), a callable, or a '
        'non-string field (TypeError); ids and every field on all universe ids, group keys and a foreign id compared with '
        'CM.Model.Rel and the reference dict comprehension; Split layers whose __split__ is a table over (id[, key field]) yielding '
        '0-3 parts per entry, sometimes colliding new ids (between entries and within one entry), own fields over (field, __part__) and '
        'inherited fields, over sources, transforms and merges. Non-trivial: >= 2 new ids')


def run(tier, seed, res, lean):
    run_rel('C17', ['groupby', 'split'], tier, seed, res, lean, RULE)


replay = replay_rel
