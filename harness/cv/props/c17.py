"""C17: GroupBy (and Split) re-key a dataset as an exact partition / expansion."""
from .relcommon import run_rel, replay_rel

RULE = ('datasets (sources, transforms, merges) grouped by one key field, two key fields (hash ids), a callable, or a '
        'non-string field (TypeError); ids and every field on all universe ids, group keys and a foreign id compared with '
        'CM.Model.Rel and the reference dict comprehension. Non-trivial: >= 2 groups')


def run(tier, seed, res, lean):
    run_rel('C17', ['groupby'], tier, seed, res, lean, RULE)


replay = replay_rel
