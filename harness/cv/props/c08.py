"""C08: caches actually memoise - hits run nothing upstream, LRU stays bounded, shards partition the sorted ids."""
import os
from .. import suite_cache, suite_lru, paths
from ..runner import Violation
from ..par import pmap
from .c01 import merge_stats

RULE = ('(1) S-LRU: get/set/clear histories (5-40 ops, keys incl. 1/True/-1/-2) on the real MemoryCache(size in None,1,2,3,5) '
        'against the Lean MemStore: hit/miss, value and number of entries after every operation; (2) S-COL: _get_shard of the real '
        'CachedColumn on random key lists (duplicates, unsorted, int/float/None shard sizes, foreign keys) against CM.Model.Shard '
        'and the partition oracle; CacheColumns pipelines with unsorted ids: one call executes upstream exactly for the shard '
        'of the sorted ids, the materialised shard and a rebuilt pipeline listing the ids in another order execute nothing; '
        '(3) S-CACHE histories (see C04) with the memoisation oracle: a repeated (field, key) behind an unbounded RAM cache or '
        'a disk cache (same or rebuilt object) and the `size` most recently used keys of a bounded RAM cache execute nothing '
        'upstream, and no bounded cache holds more than size entries (also sizes around 1024 / 2048 and up to 3500, fed with more than size distinct keys, before and after clear()); one CacheToRam(size=k) layer object composed into two pipelines keeps a bounded cache per pipeline (using one does not evict the other\'s k most recent keys). distinct_nontrivial counts distinct histories/cases')


def _shard(args):
    seed, per = args
    a = suite_lru.run_lru_shard((seed, per * 6))
    b = suite_lru.run_shard_shard((seed, per * 10))
    c = suite_lru.run_columns_shard((seed, max(2, per // 3)))
    d = suite_cache.run_shard((seed, per))
    e = suite_lru.run_shared_ram((seed, max(3, per // 2)))
    f = suite_lru.run_columns_faults((seed, max(3, per // 2)))
    g = suite_lru.run_lru_big((seed, 2 if per <= 10 else 6))
    return a, b, c, d, e, f, g


def run(tier, seed, res, lean):
    os.makedirs(paths.SCRATCH, exist_ok=True)
    shards = 16 if tier == 'quick' else 64
    per = 10 if tier == 'quick' else 100
    outs = pmap(_shard, [(seed * 6151 + i + 11, per) for i in range(shards)])
    lru_stats = merge_stats([o[0][0] for o in outs])
    cache_stats = merge_stats([o[3][0] for o in outs])
    col_stats = merge_stats([o[2][0] for o in outs])
    lru_bad = [b for o in outs for b in o[0][1]]
    lru_over = [b for o in outs for b in o[0][2]]
    shard_bad = [b for o in outs for b in o[1][1]]
    shard_oracle = [b for o in outs for b in o[1][2]]
    col_problems = [b for o in outs for b in o[2][1]]
    model_bad = [b for o in outs for b in o[3][1]]
    c08_bad = [b for o in outs for b in o[3][3]]
    lru_over += [b for o in outs for b in o[6][1]]
    for b in lru_over[:3]:
        res.violations.append(Violation('c08-lru-readback' if 'right after' in b['msg'] else 'c08-lru-unbounded', b['msg'], {'suite': 'S-LRU', **b}))
    for b in shard_oracle[:3]:
        res.violations.append(Violation('c08-shards', b['msg'][:300], {'suite': 'S-COL', **b}))
    for b in col_problems[:4]:
        res.violations.append(Violation('c08-columns', b['msg'][:300], {'suite': 'S-COL', **b}))
    shared_bad = [b for o in outs for b in o[4][1]]
    for b in shared_bad[:3]:
        res.violations.append(Violation('c08-shared-layer', b['msg'][:300], {'suite': 'S-LRU', **b}))
    fault_bad = [b for o in outs for b in o[5][1]]
    for b in fault_bad[:3]:
        res.violations.append(Violation('c08-columns-after-failure', b['msg'][:300], {'suite': 'S-COL', **b}))
    for b in c08_bad[:4]:
        res.violations.append(Violation('c08-memo', b['failures'][0]['msg'][:300], {'suite': 'S-CACHE', **b}))
    # every bracketing x cache kind x way a field reaches the cache layer (produced, consumed, inherited only)
    br_calls, br_bad = suite_cache.run_bracketings(seed)
    for b in br_bad[:3]:
        res.violations.append(Violation('c08-memo-bracketing', b['msg'][:300], {'suite': 'S-CACHE/bracketings', **b}))
    res.coverage['bracketing_calls'] = br_calls
    sl_calls, sl_bad = suite_cache.run_stacked_lru(seed)
    for b in sl_bad[:3]:
        res.violations.append(Violation('c08-stacked-lru', b['msg'][:300], {'suite': 'S-CACHE/stacked', **b}))
    res.coverage['stacked_lru_calls'] = sl_calls
    fc_calls, fc_bad = suite_cache.run_falsy_cached(seed)
    for b in fc_bad[:3]:
        res.violations.append(Violation('c08-falsy-value-not-a-hit', b['msg'][:400], {'suite': 'S-CACHE/falsy', **b}))
    lz_calls, lz_bad = suite_cache.run_lazy_values_cached(seed)
    for b in lz_bad[:3]:
        res.violations.append(Violation('c08-lazy-value-not-stored', b['msg'][:400], {'suite': 'S-CACHE/lazy-values', **b}))
    # the id mappings of Join / GroupBy / Split are computed once per pipeline object: reading ids again, and a call of a field for one
    # entry, do not compute them again (S-REL, memo part)
    from .. import suite_rel
    rel_outs = pmap(suite_rel.run_shard, [(seed * 5003 + i + 9, 24 if tier == 'quick' else 150, ['join', 'join', 'groupby', 'split']) for i in range(16)])
    memo_bad = [b for o in rel_outs for b in o[5]]
    for b in memo_bad[:3]:
        res.violations.append(Violation('c08-mapping-recomputed', b['problems'][0][:300], {'suite': 'S-REL', **b}))
    found = memo_bad or lru_over or shard_oracle or col_problems or c08_bad or shared_bad or fault_bad
    corr = (lru_bad[:1] and ('S-LRU', lru_bad[0])) or (shard_bad[:1] and ('S-COL', shard_bad[0])) or \
        (model_bad[:1] and ('S-CACHE', model_bad[0]))
    if corr and not found:
        res.violations.append(Violation(
            'c08-correspondence', f'{corr[0]}: the real code and the Lean model disagree; theorems C08.* no longer tied to the code',
            {'suite': corr[0], 'theorems': list(lean['theorems']), **corr[1]}, found_input=False))
    res.coverage.update({
        'evaluations': lru_stats['ops'] + cache_stats['calls'] + sum(o[1][0]['shard_cases'] for o in outs) + col_stats['calls'],
        'distinct_nontrivial': lru_stats['histories'] + cache_stats['distinct_nontrivial'], 'rule': RULE,
        'programs': lru_stats['histories'] + cache_stats['histories'] + col_stats['column_cases'],
        'disagreements_checked': len(lru_bad) + len(shard_bad) + len(model_bad),
        'samples': [o[3][4] for o in outs[:1] if o[3][4]],
        'distribution': {'lru': lru_stats, 'columns': col_stats, 'cache_histories': {k: cache_stats[k] for k in ('ops', 'caches', 'hits')}},
    })


def replay(obj, kind):
    return True, 'histories are replayed by re-running the check with the same VERIF_SEED (the generator is deterministic)'
