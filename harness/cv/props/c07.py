"""C07: hashes depend only on pipeline structure and input (no spurious invalidation)."""
from .. import suite_neutral, suite_alias
from ..runner import Violation
from ..par import pmap
from .c01 import merge_stats

RULE = ('(1) random Source-headed stacks: node hashes of 8 names after neutral rewrites (rebuild from the same definitions, a '
        'cache layer or an inherit-only Transform inserted at a random position, nesting a prefix into an inner chain) and the '
        'digest/signature of pickled compiled functions must equal the base; (2) Silent: another value of a Silent constructor '
        'argument, also upstream of a Filter (static hash), changes no digest; Silent bindings of explicit Function(...) fields; a second CacheToDisk layer on a storage with another digest algorithm inserted downstream leaves the first cache\'s entries findable; (3) bracketings of shared layer objects (S-ALIAS, '
        'see C09) agree on every node hash; (4) S-SEED: digests of all fields of 24 (quick) / 120 pipelines over stacks, Merge, '
        'Filter, keep/drop, GroupBy, Join computed in fresh interpreters with PYTHONHASHSEED 0, 1, 4242 equal the parent\'s. '
        'Hash transparency of Filter/CheckIds (other fields) and Merge (owner) is checked under C15/C14. '
        'distinct_nontrivial = rewrites + digests compared')


def _explicit_shard(args):
    from .. import suite_hash
    return suite_hash.run_explicit_functions(*args)


def run(tier, seed, res, lean):
    shards = 16 if tier == 'quick' else 64
    per = 12 if tier == 'quick' else 120
    outs = pmap(suite_neutral.run_shard, [(seed * 5009 + i + 41, per) for i in range(shards)])
    stats = merge_stats([o[0] for o in outs])
    problems = [p for o in outs for p in o[1]]
    sstats, sprobs = suite_neutral.run_seed_check(24 if tier == 'quick' else 120, seed + 1)
    aouts = pmap(suite_alias.run_shard, [(seed * 31337 + 77 + i, 10 if tier == 'quick' else 60) for i in range(8)])
    aprobs = [p for o in aouts for p in o[1] if 'hash' in p.get('msg', '')]
    for i in range(4 if tier == 'quick' else 24):
        problems += suite_neutral.run_two_storages(seed * 17 + i)
    for i in range(12 if tier == 'quick' else 100):
        problems += suite_neutral.run_ids_order(seed * 29 + i)
        problems += suite_neutral.run_dynamic_bracketings(seed * 37 + i)
        problems += suite_neutral.run_checkids_neutral(seed * 41 + i)
    # External layers: the digests of their fields do not depend on the string-hash seed of the interpreter
    from .. import suite_external
    _, hs = suite_external.run_hash_seeds(seed, 3 if tier == 'quick' else 12)
    problems += hs
    # pickling the compiled function (in this process and into a fresh interpreter) changes no persistent digest: the pipelines of
    # S-PICKLE (keyword bindings, dataset-wide layers that keep a static graph hash, caches)
    from .. import suite_pickle
    _, pk = suite_pickle.run_check(seed + 3)
    problems += [dict(p, msg='pickling: ' + p['msg']) for p in pk if 'digests' in p.get('msg', '')]
    from .. import suite_hash
    ef = pmap(_explicit_shard, [(seed * 619 + i + 3, 8 if tier == 'quick' else 60) for i in range(8)])
    problems += [p for o in ef for p in o[1] if p.get('kind') == 'silent-changes-hash']
    for p in problems[:5]:
        res.violations.append(Violation('c07-neutral', p['msg'][:300], {'suite': 'S-NEUTRAL', **p}))
    for p in sprobs[:5]:
        res.violations.append(Violation('c07-seed', p['msg'][:300], {'suite': 'S-SEED', **p}))
    for p in aprobs[:3]:
        res.violations.append(Violation('c07-bracketing', p['msg'][:300], {'suite': 'S-ALIAS', **p}))
    res.coverage.update({
        'evaluations': stats['rewrites'] + sstats['digests'] * sstats['interpreters'],
        'distinct_nontrivial': stats['rewrites'] + sstats['digests'], 'rule': RULE,
        'programs': stats['cases'] + sstats['pipelines'], 'disagreements_checked': len(problems) + len(sprobs) + len(aprobs),
        'samples': [{'neutral': stats, 'seed': sstats}], 'distribution': {'neutral': stats, 'seed': sstats},
    })


def replay(obj, kind):
    return True, 'cases are replayed by re-running the check with the same VERIF_SEED (the generators are deterministic)'
