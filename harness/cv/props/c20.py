"""C20: building, compiling and calling a pipeline cost time polynomial in its size."""
import time
from .. import suite_cost
from ..runner import Violation
from ..par import pmap

RULE = ('parametric families - k stacked diamond layers image(image, _box); _box(image) without cache, with CacheToRam, with '
        'CacheToDisk, over a key-independent field (ids), under Filter and under GroupBy; chains of length k; fan-in of width k - '
        'for k = 6, 12, 24 (thorough: up to 48; RAM: 4, 8, 16): calls of functions defined under /repo/connectome counted with '
        'sys.setprofile during construction, first compilation, first and second call; doubling k may multiply a count by at most '
        '6 (quadratic growth gives 4), no phase may need more than 4e6 steps; CPU time of one call at the largest k must stay '
        'under 2 s (C-level work such as hashing nested tuples does not show in call counts). distinct_nontrivial = measured '
        '(family, k, phase) triples')


def _job(args):
    name, sizes = args
    t = time.process_time()
    name, out = suite_cost.measure_family(name, sizes)
    return name, out, time.process_time() - t


def run(tier, seed, res, lean):
    base = [6, 12, 24] if tier == 'quick' else [6, 12, 24, 48]
    # families with a MemoryCache behind the diamond layers (CacheToRam; the RAM level of CacheColumns) are measured on smaller sizes: their
    # TIME doubles with every layer on the unchanged tree (finding F4b, call site MemoryCache.get/set); the step counts are still checked
    jobs = [(f, [20, 40, 80] if f == 'crop-rshift' else base if f not in ('diamond-ram', 'diamond-columns') else [4, 8, 16]) for f in suite_cost.FAMILIES]
    outs = pmap(_job, jobs)
    triples = 0
    table = {}
    for name, out, cpu in outs:
        table[name] = out
        triples += sum(len(v) for v in out.values())
        for p in suite_cost.growth_problems(name, out):
            res.violations.append(Violation('c20-growth', p['msg'][:300], {'suite': 'S-COST', 'signature': {'family': name}, **p}))
        if cpu > 20 and name not in ('diamond-ram', 'diamond-columns'):
            res.violations.append(Violation('c20-time', f'{name}: {cpu:.1f} s of CPU time for sizes {sorted(out)} although the call counts are small',
                                            {'suite': 'S-COST', 'signature': {'family': name}, 'table': out}))
    res.coverage.update({
        'evaluations': triples, 'distinct_nontrivial': triples, 'rule': RULE, 'programs': len(outs),
        'disagreements_checked': 0, 'samples': [{'diamond': table.get('diamond')}], 'distribution': table,
    })


def replay(obj, kind):
    name = obj.get('family')
    if not name:
        return True, 'no family recorded'
    sizes = sorted(int(k) for k in obj.get('steps', {}).keys()) or [6, 12, 24]
    _, out = suite_cost.measure_family(name, sizes)
    pr = suite_cost.growth_problems(name, out)
    return (not pr), (pr[0]['msg'] if pr else f'{name}: growth is polynomial again: {out}')


def witness_f4b():
    """a RAM-cached call behind k diamond layers doubles in time per layer (MemoryCache hashes the key as a tree)"""
    suite_cost.ram_call_time(6)       # warm-up (imports)
    t12 = min(suite_cost.ram_call_time(12) for _ in range(2))
    t18 = min(suite_cost.ram_call_time(18) for _ in range(2))
    import os
    if os.environ.get('CV_DEBUG'):
        print('f4b witness', t12, t18)
    return t18 > 0.01 and t18 > 12 * max(t12, 1e-4)     # six more layers: 64 x when it doubles per layer
