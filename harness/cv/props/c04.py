"""C04: caches are transparent for every history of calls, failures and rebuilds."""
import os
from .. import suite_cache, suite_lru, paths
from ..runner import Violation
from ..par import pmap
from .c01 import merge_stats

RULE = ('pipelines Source >> Transform (>> Transform) with 1-2 cache layers (CacheToRam unbounded / size 1-3, CacheToDisk on '
        'a fresh root) built through the public API; histories of 5-25 operations: call(field, key) with keys incl. -1/-2 '
        '(equal builtin hash), clear, rebuild on the same storage, switch to a pipeline variant (another function or wiring, '
        'same storage), injected failure at the k-th function invocation; every call is compared with the Lean VM run on '
        'the graph extracted from the real compiled function (stores shared across rebuilds) and with the cache-free value. '
        'Non-trivial: >= 5 operations reached a call; distinct by JSON of (pipeline, history)')


def _shard(args):
    seed, per = args
    return suite_cache.run_shard((seed, per)), suite_lru.run_columns_variants((seed, max(2, per // 3))), \
        suite_lru.run_columns_faults((seed, per)), suite_lru.run_columns_ids_alias((seed, max(2, per // 2)))


def run(tier, seed, res, lean):
    os.makedirs(paths.SCRATCH, exist_ok=True)
    shards = 16 if tier == 'quick' else 64
    per = 12 if tier == 'quick' else 120
    outs = pmap(_shard, [(seed * 9973 + i + 3, per) for i in range(shards)])
    col = [o[1] for o in outs]
    # a user failure while a shard is generated: later calls return the cache-free values, on the same and on a rebuilt pipeline
    fault_bad = [b for o in outs for b in o[2][1] if b.get('value') or b['msg'].startswith('raised')]
    fault_cases = sum(o[2][0]['fault_cases'] for o in outs)
    alias_bad = [b for o in outs for b in o[3][1]]
    alias_cases = sum(o[3][0]['alias_cases'] for o in outs)
    outs = [o[0] for o in outs]
    stats = merge_stats([o[0] for o in outs])
    model_bad = [b for o in outs for b in o[1]]
    c04_bad = [b for o in outs for b in o[2]]
    pyeq = [b for b in c04_bad if all(f.get('pyeq') for f in b['failures'])]
    c04_bad = [b for b in c04_bad if not all(f.get('pyeq') for f in b['failures'])]
    for b in pyeq[:2]:
        res.violations.append(Violation('c04-pyeq', b['failures'][0]['msg'][:400],
                                        {'suite': 'S-CACHE', 'signature': {'kind': 'pyeq_distinct_types'}, **b}))
    for b in c04_bad[:6]:
        res.violations.append(Violation('c04-oracle', b['failures'][0]['msg'][:400], {'suite': 'S-CACHE', **b}))
    col_bad = [b for o in col for b in o[1]]
    for b in col_bad[:4]:
        res.violations.append(Violation('c04-columns', b['msg'][:400], {'suite': 'S-COL', **b}))
    for b in alias_bad[:3]:
        res.violations.append(Violation('c04-columns-ids', b['msg'][:400], {'suite': 'S-COL', **b}))
    # a cache behind GroupBy over fields hashed by value whose values repeat across entries: every group gets its own dict
    from .. import suite_ghash
    gb = [p for i in range(12 if tier == 'quick' else 80) for p in suite_ghash.run_byvalue_groups(seed * 467 + i) if p['kind'] == 'c04']
    for b in gb[:3]:
        res.violations.append(Violation('c04-grouped-by-value', b['msg'][:400], {'suite': 'S-GHASH/by-value groups', **b}))
    # variants differing in one option of a dataset-wide layer, sharing one disk cache
    for i in range(3 if tier == 'quick' else 20):
        _, ov = suite_cache.run_option_variants_shared_disk(seed * 11 + i)
        for b in ov[:2]:
            res.violations.append(Violation('c04-option-variants', b['msg'][:400], {'suite': 'S-CACHE/option-variants', **b}))
    # one function with default parameters bound under different keyword names, the fields behind ONE disk cache
    from .. import suite_hash as _sh
    for p in [p for i in range(3 if tier == 'quick' else 20) for p in _sh.run_default_keywords(seed * 7 + i) if p['kind'] in ('cache', 'error')][:2]:
        res.violations.append(Violation('c04-default-keywords', p['msg'][:400], {'suite': 'S-HASH/default-keywords', **p}))
    # concrete values (numpy arrays, dicts with unusual keys, nested containers, ...) through the default serializers
    zoo_bad, zoo_calls = suite_cache.run_value_zoo(paths.SCRATCH)
    for b in zoo_bad[:4]:
        res.violations.append(Violation('c04-value-roundtrip', b['msg'][:400], {'suite': 'S-CACHE/values', **b}))
    res.coverage['value_zoo_calls'] = zoo_calls
    for b in fault_bad[:3]:
        res.violations.append(Violation('c04-columns-after-failure', b['msg'][:400], {'suite': 'S-COL', **b}))
    # S-STOP: a field that raises StopIteration below a column cache / a plain pipeline
    from .. import suite_stop
    for kind in ('columns', 'plain'):
        stop = suite_stop.run(kind)
        for p_ in [x for x in stop if x['severity'] != 'class-changed'][:2]:
            res.violations.append(Violation('c04-stopiteration', p_['msg'][:400], {'suite': 'S-STOP', **p_}))
        for p_ in [x for x in stop if x['severity'] == 'class-changed'][:1]:
            res.violations.append(Violation('c04-stopiteration-class', p_['msg'][:400], {
                'suite': 'S-STOP', 'signature': {'site': 'CachedColumn.evaluate', 'class': 'StopIteration -> RuntimeError'}, **p_}))
    if model_bad and not c04_bad:
        res.violations.append(Violation(
            'c04-correspondence', 'the real pipeline and the Lean VM (on the extracted graph) disagree on a cached history; '
            'theorems C04.* no longer tied to the code', {'suite': 'S-CACHE', 'theorems': list(lean['theorems']), **model_bad[0]},
            found_input=False))
    if stats['thm_contradicted']:
        raise RuntimeError('the compiled driver contradicts the proved theorem CM.C04.full_spec_along_history')
    res.coverage.update({
        'evaluations': stats['calls'] + sum(o[0]['calls'] for o in col), 'distinct_nontrivial': stats['distinct_nontrivial'], 'rule': RULE,
        'programs': stats['histories'], 'disagreements_checked': len(model_bad) + len(c04_bad),
        'samples': [o[4] for o in outs[:1] if o[4]], 'column_variant_cases': sum(o[0]['variant_cases'] for o in col), 'column_fault_cases': fault_cases, 'column_ids_cases': alias_cases,
        'distribution': {k: stats[k] for k in ('ops', 'caches', 'errors', 'hits', 'histories')},
        'theorem_instances': {
            'what': 'calls of graphs EXTRACTED from real compiled pipelines on which the driver evaluated the hypotheses of '
                    'CM.C04.full_spec_along_history with faithfulness discharged by CM.C05 (okCB, plainB, callOKB, disk-like stores only) '
                    'to true; the model result must then be the cache-free denotation',
            'hypotheses_hold': stats['thm_instances'], 'of_which_served_from_cache': stats['thm_hits'],
            'hypotheses_fail (RAM stores / Silent / CheckIds)': stats['thm_hyp_false'], 'contradicted': stats['thm_contradicted']},
    })


def witness_f12():
    from .. import suite_stop
    return any(p['severity'] == 'class-changed' for p in suite_stop.run('columns'))


def replay(obj, kind):
    return True, 'histories are replayed by re-running the check with the same VERIF_SEED (the generator is deterministic)'


def witness_f3():
    from .c05 import witness_f3 as w
    return w()


def witness_f10():
    """CheckIds upstream of a disk cache, two variants with different ids on one storage: the smaller variant is served
    the other's entry for an id outside its ids, where the same pipeline without the cache layer raises KeyError."""
    import shutil, tempfile
    from connectome import Source, meta, CacheToDisk
    from connectome.layers.check_ids import CheckIds

    class F10DS(Source):
        _n: int

        @meta
        def ids(_n):
            return tuple(str(i) for i in range(_n))

        def image(i):
            return 'img-' + i

    os.makedirs(paths.SCRATCH, exist_ok=True)
    root = tempfile.mkdtemp(dir=paths.SCRATCH)
    try:
        def build(n, cached):
            p = F10DS(n=n) >> CheckIds()
            return p >> CacheToDisk.simple('image', root=root) if cached else p
        build(5, True).image('4')
        try:
            build(2, False).image('4')
            return False          # the uncached pipeline no longer rejects the id: not this finding
        except KeyError:
            pass
        try:
            build(2, True).image('4')
            return True           # served from the other variant's entry
        except KeyError:
            return False
    finally:
        shutil.rmtree(root, ignore_errors=True)
