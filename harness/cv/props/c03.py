"""C03: one call evaluates each needed function exactly once and nothing else."""
from .. import suite_vm, oracle_vm
from ..runner import Violation
from ..par import pmap
from .c01 import merge_stats

RULE = ('random engine-level DAGs in which every function node carries its own function, so the call log identifies '
        'nodes; histories of 1-5 calls with caches, switches, by-value and impure wrappers; non-trivial: the output '
        'reaches >= 3 non-leaf nodes and some node has >= 2 parent occurrences; distinct by SHA-1 of (nodes, step). Pipeline level (S-REL): reading '
        'ids of GroupBy / Split / Join pipelines again executes nothing, also when another pipeline built from the same layer object was used in between')


def _shard(args):
    seed, n, max_nodes = args
    out = suite_vm.run_suite(seed, n, max_nodes=max_nodes, unique_fns=True)
    bad, oracle_bad = [], []
    for case, steps, real, model, diffs in out['results']:
        d = [x for x in diffs if x[1] in ('log', 'driver')]
        if d:
            bad.append({'case': case, 'steps': steps, 'diffs': d[:5]})
        for i, (st, r) in enumerate(zip(steps, real)):
            msg = oracle_vm.check_calls_c03(case, st, r)
            if msg:
                oracle_bad.append({'case': case, 'steps': steps[:i + 1], 'step': i, 'msg': msg})
        rep = oracle_vm.check_repeat_c03(case, steps, real)
        if rep:
            oracle_bad.append({'case': case, 'steps': steps[:rep[0] + 1], 'step': rep[0], 'msg': rep[1]})
    case, steps, real, model, diffs = out['results'][0]
    return out['stats'], bad, oracle_bad, {'nodes': case['nodes'], 'steps': steps, 'real_logs': [r.get('log') for r in real]}


def run(tier, seed, res, lean):
    shards = 16 if tier == 'quick' else 64
    per = 120 if tier == 'quick' else 600
    outs = pmap(_shard, [(seed * 1000003 + 7919 + i, per, 18 if i % 4 else 40) for i in range(shards)])
    stats = merge_stats([o[0] for o in outs])
    bad = [b for o in outs for b in o[1]]
    oracle_bad = [b for o in outs for b in o[2]]
    for b in oracle_bad[:10]:
        res.violations.append(Violation('c03-oracle', b['msg'], {'suite': 'S-VM', **b}))
    if bad and not oracle_bad:
        res.violations.append(Violation(
            'c03-correspondence', 'the call logs of vm.py and of CM.Model.VM differ (as multisets); theorems C03.* no longer tied to the code',
            {'suite': 'S-VM', 'theorems': list(lean['theorems']), **bad[0]}, found_input=False))
    # None / falsy values behind every kind of cache layer: the second identical call executes nothing upstream
    from .. import suite_cache
    fc_calls, fc_bad = suite_cache.run_falsy_cached(seed)
    for b in fc_bad[:3]:
        res.violations.append(Violation('c03-falsy-value-not-a-hit', b['msg'][:400], {'suite': 'S-CACHE/falsy', **b}))
    res.coverage['falsy_cached_calls'] = fc_calls
    # Instance access `pipeline(id)[names]`: one request is one call of one compiled function
    from .. import suite_compile
    for p in [p for i in range(6 if tier == 'quick' else 40) for p in suite_compile.run_instance_requests(seed * 83 + i)][:3]:
        res.violations.append(Violation('c03-instance-request', p['msg'][:400], {'suite': 'S-COMPILE/instance', **p}))
    for p in [p for i in range(6 if tier == 'quick' else 40) for p in suite_compile.run_hash_digest(seed * 87 + i)][:3]:
        res.violations.append(Violation('c03-hash-digest-executes-upstream', p['msg'][:400], {'suite': 'S-COMPILE/hash-digest', **p}))
    # pipeline level: the id mappings of GroupBy / Split / Join are key material kept once per pipeline object; reading ids again
    # (also after another pipeline built from the same layer object was used) executes nothing (S-REL, memo part)
    from .. import suite_rel
    rel_outs = pmap(suite_rel.run_shard, [(seed * 5003 + i + 9, 36 if tier == 'quick' else 200, ['groupby', 'split', 'join']) for i in range(shards)])
    memo_bad = [b for o in rel_outs for b in o[5]]
    for b in memo_bad[:3]:
        res.violations.append(Violation('c03-mapping-recomputed', b['problems'][0][:300], {'suite': 'S-REL', **b}))
    res.coverage['mapping_cases'] = sum(o[0]['cases'] for o in rel_outs)
    # upstream of a cache hit nothing runs: column caches (RAM table, then disk shard; same and rebuilt pipeline object)
    from .. import suite_lru, paths
    import os
    os.makedirs(paths.SCRATCH, exist_ok=True)
    col_outs = pmap(suite_lru.run_columns_shard, [(seed * 6151 + i + 11, 3 if tier == 'quick' else 12) for i in range(shards)])
    col_bad = [b for o in col_outs for b in o[1] if 'executed' in b['msg']]
    for b in col_bad[:3]:
        res.violations.append(Violation('c03-cache-hit-executes', b['msg'][:300], {'suite': 'S-COL', **b}))
    res.coverage['column_cases'] = sum(o[0]['column_cases'] for o in col_outs)
    # decorated functions (`_wrap` / `_decorate` / `_loopback`) are compiled functions too: one call runs the forward fields, the wrapped
    # function and the inverses once each, also for several outputs (S-CTX, at-most-once part)
    from .. import suite_ctx
    ctx_outs = pmap(suite_ctx.run_shard, [(seed * 2741 + i + 3, 30 if tier == 'quick' else 200) for i in range(shards)])
    twice = [b for o in ctx_outs for b in o[1] if 'more than once' in b['msg']]
    for b in twice[:3]:
        res.violations.append(Violation('c03-decorated-twice', b['msg'][:300], {'suite': 'S-CTX', **b}))
    res.coverage['decorated_cases'] = sum(o[0]['cases'] for o in ctx_outs)
    res.coverage.update({
        'evaluations': stats['calls'], 'distinct_nontrivial': stats['nontrivial'], 'rule': RULE,
        'programs': stats['cases'], 'disagreements_checked': len(bad), 'samples': [outs[0][3]],
        'distribution': {k: stats[k] for k in ('kinds', 'errors', 'sizes')},
    })


def replay(obj, kind):
    if obj.get('suite') in ('S-REL', 'S-COL', 'S-CTX'):
        return True, 'dataset pipelines are replayed by re-running the check with the same VERIF_SEED'
    from ..real_vm import RealVM
    case, steps = obj['case'], obj['steps']
    real = RealVM(case).run(steps)
    for st, r in zip(steps, real):
        msg = oracle_vm.check_calls_c03(case, st, r)
        if msg:
            return False, 'still failing on the real code: ' + msg
    rep = oracle_vm.check_repeat_c03(case, steps, real)
    if rep:
        return False, 'still failing on the real code: ' + rep[1]
    return True, 'the oracle passes on the recorded case'
