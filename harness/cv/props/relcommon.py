"""Shared runner of the S-REL based checks (C14, C15, C16, C17)."""
from .. import suite_rel
from ..runner import Violation
from ..par import pmap
from .c01 import merge_stats


def run_rel(pid, kinds, tier, seed, res, lean, rule, per_quick=40, per_thorough=300):
    shards = 16 if tier == 'quick' else 64
    per = per_quick if tier == 'quick' else per_thorough
    outs = pmap(suite_rel.run_shard, [(seed * 7907 + i + 17 * len(pid) + ord(pid[-1]), per, kinds) for i in range(shards)])
    stats = merge_stats([o[0] for o in outs])
    oracle_bad = [b for o in outs for b in o[1]]
    model_bad = [b for o in outs for b in o[2]]
    hash_bad = [b for o in outs for b in o[3]]
    memo_bad = [b for o in outs for b in o[5]]
    p = pid.lower()
    for b in oracle_bad[:6]:
        res.violations.append(Violation(f'{p}-oracle', f'differs from the reference semantics: {str(b["diffs"][:1])[:300]}',
                                        {'suite': 'S-REL', **b}))
    for b in hash_bad[:4]:
        res.violations.append(Violation(f'{p}-hash', b['problems'][0][:300], {'suite': 'S-REL', **b}))
    for b in memo_bad[:4]:
        res.violations.append(Violation(f'{p}-memo', b['problems'][0][:300], {'suite': 'S-REL', **b}))
    # S-STOP: the user function a dataset-wide layer evaluates per id raises StopIteration: never taken for the end of the ids
    from .. import suite_stop
    for kind in ([k for k in ('filter', 'groupby') if k in kinds]):
        for p_ in [x for x in suite_stop.run(kind) if x['severity'] != 'class-changed'][:2]:
            res.violations.append(Violation(f'{p}-stopiteration', p_['msg'][:400], {'suite': 'S-STOP', **p_}))
    if model_bad and not oracle_bad:
        res.violations.append(Violation(
            f'{p}-correspondence', 'the real pipeline and CM.Model.Rel disagree; theorems no longer tied to the code',
            {'suite': 'S-REL', 'theorems': list(lean['theorems']), **model_bad[0]}, found_input=False))
    res.coverage.update({
        'evaluations': stats['evaluations'], 'distinct_nontrivial': stats['distinct_nontrivial'], 'rule': rule,
        'programs': stats['cases'], 'disagreements_checked': len(model_bad) + len(oracle_bad) + len(hash_bad),
        'samples': [o[4] for o in outs[:1] if o[4]] or [{'note': 'none'}],
        'distribution': {k: stats[k] for k in ('kinds', 'errors', 'construct_err', 'cases')},
    })


def replay_rel(obj, kind):
    from .. import rel
    from ..pipeline import Builder
    from ..codec import canon, exc_name
    d = obj['desc']
    b = Builder()
    try:
        layer, cerr = b.layer(d), None
    except Exception as e:
        layer, cerr = None, exc_name(e)
    try:
        r, rerr = rel.ref(d), None
    except rel.RErr as e:
        r, rerr = None, e.kind
    if cerr or rerr:
        return cerr == rerr, f'construction: real {cerr}, reference {rerr}'
    fields = sorted(set(r.fields) | set(suite_rel.FIELDS_EXTRA))
    q = list(rel.UNIVERSE + rel.FOREIGN)
    a, e = rel.observe_rel(b, layer, fields, q), rel.ref_observe(r, fields, q)
    same = all(canon(a.get(k)) == canon(e.get(k)) for k in ('ids', 'ids_err', 'dir', 'values'))
    return same, 'the recorded pipeline ' + ('agrees with' if same else 'still differs from') + ' the reference semantics'
