"""C06: static graph hashes of dataset-wide layers identify the function they key."""
from .. import suite_ghash, suite_vm, suite_hash
from ..runner import Violation
from ..par import pmap
from .c01 import merge_stats

RULE = ('families of sub-pipelines (Source or Merge of 1-3 Sources with shared or per-dataset functions, optional Transform '
        'with a constructor argument, shared Transform objects) that differ in one respect: Merge routing over a fixed id set, '
        'other id sets with the same positional pattern, an upstream function, a constructor argument, the predicate\'s '
        'arguments; each is put under the graph Filter builds; graphs with equal Graph.hash() must agree as functions of the id '
        'on 7 ids and a foreign id (measured on the real graph); a rebuild must keep the hash; every graph is extracted and '
        'hashed by the Lean model. distinct_nontrivial = hash groups over all families')


def _static_shard(args):
    seed, n = args
    evals, coll = 0, []
    for i in range(n):
        e, c, _ = suite_hash.run_family_static(seed * 6151 + i)
        evals += e
        coll += c
    return evals, coll


def _vm_shard(args):
    seed, n = args
    return suite_vm.run_suite(seed, n, max_nodes=12)['stats']


def run(tier, seed, res, lean):
    shards = 16 if tier == 'quick' else 64
    per = 12 if tier == 'quick' else 120
    outs = pmap(suite_ghash.run_shard, [(seed * 2741 + i + 29, per) for i in range(shards)])
    st = pmap(_static_shard, [(seed * 911 + i + 5, 30 if tier == 'quick' else 200) for i in range(shards)])
    for c in [c for o in st for c in o[1]][:4]:
        res.violations.append(Violation('c06-static-collision', c['msg'], {'suite': 'S-HASH-STATIC', **c}))
    # explicit `Function(...)` bindings (positional / keyword / Silent in any written order): `FunctionEdge._make_hash` is the static hash as well -
    # a non-silent input that does not change the hash is a collision of the static hashes of two different functions of the id
    from .. import suite_hash as _sh
    from .c05 import _explicit_shard
    ef = pmap(_explicit_shard, [(seed * 641 + i + 3, 8 if tier == 'quick' else 60) for i in range(8)])
    for p in [p for o in ef for p in o[1] if p.get('kind') == 'collision'][:3]:
        res.violations.append(Violation('c06-explicit-function', p['msg'][:400], {'suite': 'S-HASH/explicit', **p}))
    # External layers with a marker that names the field: different methods of the wrapped object have different static hashes
    from .. import suite_external
    ext = pmap(suite_external.run_shard, [(seed * 67 + i + 1, 4 if tier == 'quick' else 30) for i in range(16)])
    for p in [p for o in ext for p in o[1] if p.get('kind') == 'static-collision'][:3]:
        res.violations.append(Violation('c06-external', p['msg'][:400], {'suite': 'S-EXTERNAL', **p}))
    vm = merge_stats(pmap(_vm_shard, [(seed * 7333 + i + 11, 40 if tier == 'quick' else 200) for i in range(shards)]))
    if vm['static_vs_real_mismatch']:
        res.violations.append(Violation(
            'c06-evalG', 'on a plain graph the value returned by the real code is not evalG(input, static graph hash): the theorem '
            'CM.C06.static_hash_determines_value no longer describes the code',
            {'suite': 'S-VM', 'theorems': list(lean['theorems']), 'cases': vm['decode_bad'][:2]}, found_input=False))
    stats = merge_stats([o[0] for o in outs])
    problems = [p for o in outs for p in o[1]]
    model_bad = [p for o in outs for p in o[2]]
    for p in problems[:6]:
        res.violations.append(Violation('c06-collision', p['msg'][:400], {'suite': 'S-GHASH', **p}))
    if model_bad and not problems:
        res.violations.append(Violation('c06-correspondence', 'Graph.hash() and the model\'s hashGraph differ on an extracted graph',
                                        {'suite': 'S-GHASH', 'theorems': list(lean['theorems']), **model_bad[0]}, found_input=False))
    # families of dataset-wide layers differing in ONE option (see C05), incl. a Join whose sides share a function: equal digest of
    # what the layer derives (ids) => equal value
    from .c05 import _option_shard
    of = pmap(_option_shard, [(seed * 3571 + i + 9, 6 if tier == 'quick' else 40) for i in range(16)])
    for p_ in [p_ for o in of for p_ in o[1]][:3]:
        res.violations.append(Violation('c06-option-collision', p_['msg'][:400], {'suite': 'S-GHASH/options', **p_}))
    res.coverage.update({
        'evaluations': stats['variants'] + sum(o[0] for o in st), 'engine_level_static_hashes': sum(o[0] for o in st), 'distinct_nontrivial': stats['groups'], 'rule': RULE,
        'programs': stats['variants'], 'disagreements_checked': len(model_bad) + len(problems),
        'samples': [{'kinds': stats['kinds']}], 'distribution': stats,
        'theorem_instances': {'what': 'call steps of random engine graphs that are plain with all used inputs bound to one value '
                              '(Graph.plainGB, proved sound): the value returned by the REAL code vs evalG(input, hashGraph) computed by the driver '
                              '(CM.C06.static_hash_determines_value)',
                              'checked': vm['static_instances'], 'mismatches': vm['static_vs_real_mismatch']},
    })


def replay(obj, kind):
    return True, 'families are replayed by re-running the check with the same VERIF_SEED (the generator is deterministic)'
