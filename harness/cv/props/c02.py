"""C02: field resolution across layers - define, inherit, drop; never a stale field."""
from .. import suite_bag
from ..runner import Violation
from ..par import pmap
from .c01 import merge_stats

RULE = ('random stacks of 1-6 layers (Source heads with constructor arguments, Transforms with private parameters, '
        'constructor arguments/defaults, __inherit__ lists / True / __exclude__, @optional marks, redefinition of the key, '
        'Apply, CacheToRam) built through the public metaclass API, half of those with >= 3 layers in a random bracketing / flavour (Chain, >>, LazyChain; sub-chains at any position), with uninterpreted functions; observed: construction '
        'error, dir, and for 8 names the signature, the symbolic value or the exception class; compared with the Lean '
        'model CM.Model.Stack (correspondence) and with the Python reference resolver (direct oracle). Non-trivial: >= 2 '
        'layers, constructs, >= 2 exposed fields; distinct by JSON of the stack')


def run(tier, seed, res, lean, opts=None, pid='C02'):
    shards = 16 if tier == 'quick' else 64
    per = 60 if tier == 'quick' else 400
    outs = pmap(suite_bag.run_shard, [(seed * 977 + 13 * i + 1, per, opts or {}) for i in range(shards)])
    stats = merge_stats([o[0] for o in outs])
    oracle_bad = [b for o in outs for b in o[1]]
    model_bad = [b for o in outs for b in o[2]]
    for b in oracle_bad[:8]:
        small = suite_bag.shrink_stack(b['stack'], suite_bag.oracle_fails)
        d, _ = suite_bag.compare(small)
        res.violations.append(Violation(
            f'{pid.lower()}-oracle', f'the pipeline differs from the reference resolution: {str(d[:1])[:300]}',
            {'suite': 'S-BAG', 'stack': small, 'diffs': str(d[:3])[:1500]}))
    if model_bad and not oracle_bad:
        res.violations.append(Violation(
            f'{pid.lower()}-correspondence', 'the real pipeline and CM.Model.Stack disagree; theorems no longer tied to the code',
            {'suite': 'S-BAG', 'theorems': list(lean['theorems']), **model_bad[0]}, found_input=False))
    res.coverage.update({
        'evaluations': stats['stacks'], 'distinct_nontrivial': stats['distinct_nontrivial'], 'rule': RULE,
        'programs': stats['stacks'], 'disagreements_checked': len(model_bad) + len(oracle_bad),
        'samples': [o[3] for o in outs[:1] if o[3]] or [{'note': 'no sample with >= 3 layers in the first shard'}],
        'distribution': {k: stats[k] for k in ('layers', 'kinds', 'construct_err', 'dependency_error', 'ok',
                                               'optional_marks', 'quietly_dropped', 'fields_checked', 'nested', 'nested_unbuildable') if k in stats},
    })


def replay(obj, kind):
    diffs, _ = suite_bag.compare(obj['stack'])
    if diffs:
        return False, 'still differs from the reference resolution: ' + str(diffs[:2])[:500]
    return True, 'the recorded stack now agrees with the reference resolution'
