"""C02: field resolution across layers - define, inherit, drop; never a stale field."""
from .. import suite_bag, suite_node
from ..runner import Violation
from ..par import pmap
from .c01 import merge_stats

RULE = ('random stacks of 1-6 layers (Source heads with constructor arguments, Transforms with private parameters, '
        'constructor arguments/defaults, __inherit__ lists / True / __exclude__, @optional marks, redefinition of the key, '
        'Apply, CacheToRam) built through the public metaclass API, half of those with >= 3 layers in a random bracketing / flavour (Chain, >>, LazyChain; sub-chains at any position), with uninterpreted functions; observed: construction '
        'error, dir, and for 8 names the signature, the symbolic value or the exception class; compared with the Lean '
        'model CM.Model.Stack (correspondence) and with the Python reference resolver (direct oracle). Non-trivial: >= 2 '
        'layers, constructs, >= 2 exposed fields; distinct by JSON of the stack')


def run(tier, seed, res, lean, opts=None, pid='C02'):
    shards = 16 if tier == 'quick' else 64
    per = 60 if tier == 'quick' else 400
    outs = pmap(suite_bag.run_shard, [(seed * 977 + 13 * i + 1, per, opts or {}) for i in range(shards)])
    if pid == 'C02':
        # External layers: the stack exposes the wrapped object's properties and methods with the object's values
        from .. import suite_external
        ext = pmap(suite_external.run_shard, [(seed * 61 + i + 1, 4 if tier == 'quick' else 30) for i in range(16)])
        for p in [p for o in ext for p in o[1] if p.get('kind') != 'collision'][:3]:
            res.violations.append(Violation('c02-external', p['msg'][:400], {'suite': 'S-EXTERNAL', **p}))
        # Mixins that carry the inheritance policy / parameters / fields of the Transforms using them
        import warnings
        from .. import suite_outann
        with warnings.catch_warnings():
            warnings.simplefilter('ignore')
            for p in [p for i in range(10 if tier == 'quick' else 60) for p in suite_outann.run_mixin_policy(seed * 97 + i)][:3]:
                res.violations.append(Violation('c02-mixin-policy', p['msg'][:400], {'suite': 'S-OUTANN/mixin', **p}))
    stats = merge_stats([o[0] for o in outs])
    oracle_bad = [b for o in outs for b in o[1]]
    model_bad = [b for o in outs for b in o[2]]
    for b in oracle_bad[:8]:
        small = suite_bag.shrink_stack(b['stack'], suite_bag.oracle_fails)
        d, _ = suite_bag.compare(small)
        res.violations.append(Violation(
            f'{pid.lower()}-oracle', f'the pipeline differs from the reference resolution: {str(d[:1])[:300]}',
            {'suite': 'S-BAG', 'stack': small, 'diffs': str(d[:3])[:1500]}))
    if model_bad and not oracle_bad:
        res.violations.append(Violation(
            f'{pid.lower()}-correspondence', 'the real pipeline and CM.Model.Stack disagree; theorems no longer tied to the code',
            {'suite': 'S-BAG', 'theorems': list(lean['theorems']), **model_bad[0]}, found_input=False))
    node = node_part(tier, seed, res, lean, pid, ['stack', 'stack', 'rel', 'ctx'])
    res.coverage.update({
        'node_level': node,
        'theorem_instances': {'what': 'connect_bags calls of the REAL code (recorded while the generated pipelines were built) whose two operands '
                              'satisfy Bag.wfB (proved sound: node_wf_check_sound) and for which the model computed the same bag as the real call: '
                              'instances of CM.C02.node_connect_step; its prediction that the result is well-formed is evaluated on each',
                              'checked': node['theorem_instances'], 'mismatches': node['theorem_contradicted']},
        'evaluations': stats['stacks'], 'distinct_nontrivial': stats['distinct_nontrivial'], 'rule': RULE,
        'programs': stats['stacks'], 'disagreements_checked': len(model_bad) + len(oracle_bad),
        'samples': [o[3] for o in outs[:1] if o[3]] or [{'note': 'no sample with >= 3 layers in the first shard'}],
        'distribution': {k: stats[k] for k in ('layers', 'kinds', 'construct_err', 'dependency_error', 'ok',
                                               'optional_marks', 'quietly_dropped', 'fields_checked', 'nested', 'nested_unbuildable') if k in stats},
    })


def node_part(tier, seed, res, lean, pid, kinds, ops=None):
    """S-NODE: the node-level model against the real connect_bags / normalize_bag / loopback / GraphCompiler"""
    shards = 16 if tier == 'quick' else 64
    per = 24 if tier == 'quick' else 120
    outs = pmap(suite_node.run_shard, [(seed * 4099 + 7 * i + 3, per, kinds) for i in range(shards)])
    stats = merge_stats([{k: v for k, v in o[0].items() if k != 'max_edges'} for o in outs])
    stats['max_edges'] = max(o[0]['max_edges'] for o in outs)
    bad = [b for o in outs for b in o[1] if ops is None or b['record'].get('t') in ops or 'driver' in b['diff']]
    contradicted = [b for b in bad if 'theorem' in b['diff']]
    mutated = [b for b in bad if b['diff'].get('oracle')]
    for b in mutated[:2]:
        res.violations.append(Violation(f'{pid.lower()}-operand-mutated', 'composing changed an operand: ' + str(b['diff'])[:350],
                                        {'suite': 'S-NODE', **{k: v for k, v in b.items() if k != 'record'}, 'left': b['record'].get('left')}))
    bad = [b for b in bad if not b['diff'].get('oracle')]
    if bad:
        b = bad[0]
        res.violations.append(Violation(
            f'{pid.lower()}-node-correspondence',
            f'the real {b["record"].get("t")} and CM.Model.Bag disagree: {str(b["diff"])[:300]}; the node-level theorems are no longer tied to the code',
            {'suite': 'S-NODE', 'theorems': [t for t in lean['theorems'] if '.node_' in t], **b}, found_input=False))
    if 'stack' in kinds and ops is None:
        # end to end through the model's own compiler: real final container -> Bag.validate / getNode / compileGraph -> VM model
        e2e = pmap(suite_node.run_e2e_shard, [(seed * 2203 + 5 * i + 1, 10 if tier == 'quick' else 60) for i in range(shards)])
        stats['e2e'] = merge_stats([o[0] for o in e2e])
        e2e_bad = [b for o in e2e for b in o[1]]
        stats['e2e']['disagreements'] = len(e2e_bad)
        if e2e_bad:
            res.violations.append(Violation(
                f'{pid.lower()}-e2e-correspondence',
                f'a field of a real pipeline and the model\'s own compilation of its container (Bag.compileGraph + VM) differ: {str(e2e_bad[0]["diff"])[:300]}',
                {'suite': 'S-NODE/e2e', 'theorems': [t for t in lean['theorems'] if '.node_' in t], **e2e_bad[0]}, found_input=False))
    if ops is None or 'factory' in ops:
        # S-FACTORY: the container GraphFactory / ReversibleContainer build from a class body against CM.Model.Factory
        from .. import suite_factory
        fouts = pmap(suite_factory.run_shard, [(seed * 811 + 13 * i + 2, 20 if tier == 'quick' else 120) for i in range(shards)])
        fstats = merge_stats([o[0] for o in fouts])
        fbad = [b for o in fouts for b in o[1]]
        fstats['disagreements'] = len(fbad)
        stats['factory'] = fstats
        if fbad:
            res.violations.append(Violation(
                f'{pid.lower()}-factory-correspondence',
                f'the container the real GraphFactory / ReversibleContainer build for a layer and CM.Model.Factory differ: {str({k: v for k, v in fbad[0].items() if k != "desc"})[:300]}',
                {'suite': 'S-FACTORY', 'theorems': [t for t in lean['theorems'] if 'factory' in t], **fbad[0]}, found_input=False))
    stats['theorem_contradicted'] = len(contradicted)
    stats['disagreements'] = len(bad)
    return stats


def replay(obj, kind):
    if obj.get('suite') in ('S-NODE', 'S-FACTORY', 'S-NODE/e2e'):
        return True, 'recorded calls are regenerated by re-running the check with the same VERIF_SEED'
    diffs, _ = suite_bag.compare(obj['stack'])
    if diffs:
        return False, 'still differs from the reference resolution: ' + str(diffs[:2])[:500]
    return True, 'the recorded stack now agrees with the reference resolution'
