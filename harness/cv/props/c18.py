"""C18: optional fields vanish quietly; required ones fail loudly and by name."""
from . import c02
from .. import suite_bag

OPTS = {'p_avail': 0.6, 'p_opt': 0.55, 'max_layers': 5}


def run(tier, seed, res, lean):
    c02.run(tier, seed + 5, res, lean, opts=OPTS, pid='C18')
    # fields that read another OUTPUT of their own layer (`def z(y: Output)`): an input is optional only if every field that needs it,
    # directly or through such a link, is optional (reference semantics as oracle)
    from .. import suite_outann
    from ..par import pmap
    from ..runner import Violation
    outs = pmap(suite_outann.run_shard, [(seed * 331 + i + 2, 12 if tier == 'quick' else 100) for i in range(16)])
    for p in [p for o in outs for p in o[1]][:4]:
        res.violations.append(Violation('c18-output-annotation', p['msg'][:400], {'suite': 'S-OUTANN', **p}))
    res.coverage['output_annotation_stacks'] = {k: sum(o[0][k] for o in outs) for k in (outs[0][0] if outs else {})}
    res.coverage['rule'] = ('as S-BAG (see C02) with 55% of the fields marked @optional and 40% of the arguments drawn from names '
                            'the prefix may not expose (missing upstream names), cache layers (which mark what they touch optional), '
                            'used / unused private parameters and inherited pass-throughs of the same name; observed additionally: '
                            'DependencyError vs quiet drop, and that the error text names the field and the missing inputs. '
                            'Non-trivial: >= 2 layers, constructs, >= 2 exposed fields; distinct by JSON of the stack')


replay = c02.replay
