"""C18: optional fields vanish quietly; required ones fail loudly and by name."""
from . import c02
from .. import suite_bag

OPTS = {'p_avail': 0.6, 'p_opt': 0.55, 'max_layers': 5}


def run(tier, seed, res, lean):
    c02.run(tier, seed + 5, res, lean, opts=OPTS, pid='C18')
    res.coverage['rule'] = ('as S-BAG (see C02) with 55% of the fields marked @optional and 40% of the arguments drawn from names '
                            'the prefix may not expose (missing upstream names), cache layers (which mark what they touch optional), '
                            'used / unused private parameters and inherited pass-throughs of the same name; observed additionally: '
                            'DependencyError vs quiet drop, and that the error text names the field and the missing inputs. '
                            'Non-trivial: >= 2 layers, constructs, >= 2 exposed fields; distinct by JSON of the stack')


replay = c02.replay
