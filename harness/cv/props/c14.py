"""C14: Merge routes every id to the one dataset that owns it."""
from .relcommon import run_rel, replay_rel

RULE = ('Merge of 1-4 datasets (sources, sources + transforms, nested merges) with shuffled id lists that are disjoint, '
        'overlapping (also between non-adjacent datasets) or empty, different field sets per dataset; also Merge under '
        'Filter/CheckIds/GroupBy; every field evaluated on 8 universe ids and a foreign id through the public API; compared '
        'with CM.Model.Rel and with the reference evaluator; the node hash of every merged field on every id is compared with '
        'the owning dataset\'s hash. Non-trivial: constructs and has >= 2 ids; distinct by JSON')


def run(tier, seed, res, lean):
    run_rel('C14', ['merge', 'merge', 'merge', 'filter', 'groupby', 'check_ids'], tier, seed, res, lean, RULE)


replay = replay_rel
