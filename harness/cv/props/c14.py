"""C14: Merge routes every id to the one dataset that owns it."""
from .relcommon import run_rel, replay_rel

RULE = ('Merge of 1-4 datasets (sources, sources + transforms, nested merges) with shuffled id lists that are disjoint, '
        'overlapping (also between non-adjacent datasets) or empty, different field sets per dataset; also Merge under '
        'Filter/CheckIds/GroupBy; every field evaluated on 8 universe ids and a foreign id through the public API; compared '
        'with CM.Model.Rel and with the reference evaluator; the node hash of every merged field on every id is compared with '
        'the owning dataset\'s hash. Non-trivial: constructs and has >= 2 ids; distinct by JSON')


def run(tier, seed, res, lean):
    run_rel('C14', ['merge', 'merge', 'merge', 'filter', 'groupby', 'check_ids'], tier, seed, res, lean, RULE)
    # the container Merge._merge_containers builds against CM.Model.Merge (the node-level theorems node_switch_* are about its edges)
    from .. import suite_factory
    from ..par import pmap
    from ..runner import Violation
    outs = pmap(suite_factory.run_merge_shard, [(seed * 1543 + i + 1, 12 if tier == 'quick' else 80) for i in range(16)])
    bad = [b for o in outs for b in o[1]]
    res.coverage['merge_containers'] = sum(o[0]['merges'] for o in outs)
    if bad:
        res.violations.append(Violation(
            'c14-merge-container-correspondence',
            f'the container the real Merge builds and CM.Model.Merge.mergeBags differ: {str({k: v for k, v in bad[0].items() if k != "desc"})[:300]}',
            {'suite': 'S-FACTORY/merge', 'theorems': [t for t in lean['theorems'] if 'node_' in t], **bad[0]}, found_input=False))


replay = replay_rel
