"""C16: Join implements inner/left/right/outer relational joins on key fields."""
from .relcommon import run_rel, replay_rel

RULE = ('two sources with 0-6 ids each, one or two key fields given by tables (mostly unique per side, sometimes duplicated, '
        'disjoint or empty), four modes; ids and every field on all universe ids, all join ids and a foreign id compared with '
        'CM.Model.Rel (sha-based ids mapped to the model\'s injective encoding) and the reference relational join. '
        'Non-trivial: >= 2 join ids')


def run(tier, seed, res, lean):
    run_rel('C16', ['join'], tier, seed, res, lean, RULE)


replay = replay_rel
