"""C16: Join implements inner/left/right/outer relational joins on key fields."""
from .relcommon import run_rel, replay_rel

RULE = ('two sources with 0-6 ids each, one or two key fields given by tables (mostly unique per side, sometimes duplicated, '
        'disjoint or empty), four modes; ids and every field on all universe ids, all join ids and a foreign id compared with '
        'CM.Model.Rel (sha-based ids mapped to the model\'s injective encoding) and the reference relational join. '
        'Non-trivial: >= 2 join ids')


def run(tier, seed, res, lean):
    run_rel('C16', ['join'], tier, seed, res, lean, RULE)
    # the container JoinContainer builds against CM.Model.JoinBag (the node-level theorem node_join_container is about its edges)
    from .. import suite_factory
    from ..par import pmap
    from ..runner import Violation
    outs = pmap(suite_factory.run_join_shard, [(seed * 1913 + i + 1, 12 if tier == 'quick' else 80) for i in range(16)])
    bad = [b for o in outs for b in o[1]]
    res.coverage['join_containers'] = sum(o[0]['joins'] for o in outs)
    res.coverage['join_containers_rejected'] = sum(sum(o[0]['errors'].values()) for o in outs)
    res.coverage['join_container_modes'] = {k: sum(o[0]['modes'].get(k, 0) for o in outs) for k in ('inner', 'left', 'right', 'outer')}
    if bad:
        res.violations.append(Violation(
            'c16-join-container-correspondence',
            f'the container the real Join builds and CM.Model.JoinBag.joinBag differ: {str({k: v for k, v in bad[0].items() if k != "desc"})[:300]}',
            {'suite': 'S-FACTORY/join', 'theorems': [t for t in lean['theorems'] if 'node_' in t], **bad[0]}, found_input=False))


replay = replay_rel
