"""C13: impure functions are never cached or keyed unless explicitly allowed."""
from .. import suite_impure
from ..runner import Violation
from ..par import pmap
from .c01 import merge_stats

RULE = ('(1) every node of random engine graphs (all edge kinds, impure wrappers behind caches, switches, by-value wrappers): '
        'the real CacheLayer._detect_impure against CM.Model.Impure.detectImpure (and the static hash against the model, see C05); '
        '(2) stacks Source(@impure field | impure private parameter | @hash_by_value @impure) >> Transform (spreading the taint or '
        'not, or itself impure) [>> CacheToRam(impure=True)] [nested Chain] >> CacheToRam/CacheToDisk/CacheColumns(names, impure flag) '
        '| Filter(pred over fields) | GroupBy: building must raise (ValueError/HashError) exactly when a covered/keyed field is '
        'tainted and impure=True is not given. distinct_nontrivial counts distinct stacks')


def _shard(args):
    seed, per = args
    return suite_impure.run_engine_shard((seed, per)), suite_impure.run_pipeline_shard((seed, per * 3))


def run(tier, seed, res, lean):
    shards = 16 if tier == 'quick' else 64
    per = 25 if tier == 'quick' else 250
    outs = pmap(_shard, [(seed * 4099 + i + 5, per) for i in range(shards)])
    es = merge_stats([o[0][0] for o in outs])
    ps = merge_stats([o[1][0] for o in outs])
    ebad = [b for o in outs for b in o[0][1]]
    pbad = [b for o in outs for b in o[1][1]]
    for b in pbad[:6]:
        res.violations.append(Violation('c13-pipeline', b['msg'][:300], {'suite': 'S-IMPURE', **b}))
    for b in [b for b in suite_impure.run_combined() if b['kind'] == 'c13'][:2]:
        res.violations.append(Violation('c13-combined-by-value', b['msg'][:300], {'suite': 'S-IMPURE/combined', **b}))
    for b in ebad[:3]:
        if b.get('oracle') is not None and b['real'] != b['oracle']:
            res.violations.append(Violation('c13-detect', '_detect_impure differs from reachability of an ImpureEdge', {'suite': 'S-IMPURE', **b}))
    if ebad and not res.violations:
        res.violations.append(Violation('c13-correspondence', '_detect_impure and CM.Model.Impure disagree', {'suite': 'S-IMPURE', **ebad[0]}, found_input=False))
    for p in suite_impure.run_marked_then_wrapped(seed)[:2]:
        res.violations.append(Violation('c13-marked-then-wrapped', p['msg'][:400], {'suite': 'S-IMPURE/wrapped', **p}))
    res.coverage.update({
        'evaluations': es['nodes'] + ps['stacks'], 'distinct_nontrivial': ps['stacks'], 'rule': RULE,
        'programs': es['graphs'] + ps['stacks'], 'disagreements_checked': len(ebad) + len(pbad),
        'samples': [{'engine': es, 'pipelines': ps}], 'distribution': {'engine': es, 'pipelines': ps},
    })


def replay(obj, kind):
    from ..pipeline import Builder
    import tempfile, shutil
    if 'desc' not in obj:
        return True, 'engine-level cases are re-run by the check'
    root = tempfile.mkdtemp()
    try:
        try:
            Builder(roots=[root]).layer(obj['desc'])
            return False, 'the recorded stack is still accepted / msg: ' + obj.get('msg', '')
        except Exception as e:
            return False, f'the recorded stack raises {type(e).__name__}; recorded: ' + obj.get('msg', '')
    finally:
        shutil.rmtree(root, ignore_errors=True)
