"""C05: equal node hash implies equal computation."""
from .. import suite_vm, suite_hash
from ..runner import Violation
from ..par import pmap
from .c01 import merge_stats

RULE = ('(1) S-VM hash steps: the NodeHash.value tree of random engine graphs is compared with the model\'s hden; '
        '(2) S-HASH families: a random base graph and up to 6 single-step mutants (other function, constant, swapped '
        'arguments, keyword name, wiring, switch routing, moved Silent mark) sharing their function objects; every node '
        'x 2 inputs is hashed by the real code and grouped by NodeHash equality; inside a group the Silent-erased '
        'computations (independent oracle) must be equal; (3) S-SCHED: two or three real threads under the deterministic scheduler (gates at '
        'user functions, cache locks and inside the equality of gated string keys) calling one pipeline: the node hash every call computes '
        'must be the one a sequential execution computes. distinct_nontrivial counts hash groups holding >= 2 evaluations')


def _explicit_shard(args):
    return suite_hash.run_explicit_functions(*args)


def _shard(args):
    seed, n = args
    out = suite_vm.run_suite(seed, n, max_nodes=14)
    bad = []
    for case, steps, real, model, diffs in out['results']:
        d = [x for x in diffs if x[1] in ('hash', 'hash_graph', 'driver')]
        if d:
            bad.append({'case': case, 'steps': steps, 'diffs': d[:3]})
    evals, coll, pyeq, pairs = 0, [], [], 0
    fam_stats = {}
    for i in range(n // 3):
        e, c, p, st = suite_hash.run_family(seed * 7919 + i)
        evals += e
        coll += c
        pyeq += p
        pairs += st['groups_with_pairs']
        for k, v in st['variants'].items():
            fam_stats[k] = fam_stats.get(k, 0) + v
    return out['stats'], bad, evals, coll, pyeq, pairs, fam_stats


def _option_shard(args):
    seed, n = args
    from .. import suite_ghash
    tot, problems = 0, []
    for i in range(n):
        st, pr = suite_ghash.run_option_family(seed * 131 + i)
        tot += st['variants']
        problems += pr
    return tot, problems


def _grouped_shard(args):
    """families of sub-pipelines differing in one respect (Merge routing, functions, arguments) under GroupBy: the NODE hash of a
    grouped field contains the static hash of the sub-pipeline, so equal digests with different values are a C05 collision"""
    seed, n = args
    from .. import suite_ghash
    tot, problems = 0, []
    for i in range(n):
        f = suite_ghash.run_family(seed * 50021 + i)
        tot += f['variants']
        problems += [p for p in f['problems'] if p['msg'].startswith('under GroupBy')]
        problems += [p for p in suite_ghash.run_byvalue_groups(seed * 211 + i) if p['kind'] == 'c05']
    return tot, problems


def run(tier, seed, res, lean):
    shards = 16 if tier == 'quick' else 64
    per = 90 if tier == 'quick' else 450
    outs = pmap(_shard, [(seed * 1000003 + 104729 + i, per) for i in range(shards)])
    def engine_part():
        stats = merge_stats([o[0] for o in outs])
        bad = [b for o in outs for b in o[1]]
        coll = [c for o in outs for c in o[3]]
        pyeq = [c for o in outs for c in o[4]]
        for c in [c for c in coll if not c.get('silent_none')][:10]:
            res.violations.append(Violation(
                'c05-collision', f'equal NodeHash for different computations: {c["value_a"][:120]} vs {c["value_b"][:120]}',
                {'suite': 'S-HASH', **c}))
        for c in [c for c in coll if c.get('silent_none')][:3]:
            res.violations.append(Violation(
                'c05-silent-none', f'a Silent position hashes like an argument whose value is None: {c["value_a"][:80]} vs {c["value_b"][:80]}',
                {'suite': 'S-HASH', 'signature': {'kind': 'silent_vs_none'}, **c}))
        for c in pyeq[:3]:
            res.violations.append(Violation(
                'c05-pyeq', f'NodeHash equality is Python ==: {c["value_a"][:80]} vs {c["value_b"][:80]}',
                {'suite': 'S-HASH', 'signature': {'kind': 'pyeq_distinct_types'}, **c}))
        if bad and not coll:
            res.violations.append(Violation(
                'c05-correspondence', 'NodeHash.value of the real code and hden of the model differ; theorems C05.* no longer tied to the code',
                {'suite': 'S-VM', 'theorems': list(lean['theorems']), **bad[0]}, found_input=False))
        if stats['decode_vs_real_mismatch'] and not coll and not bad:
            res.violations.append(Violation(
                'c05-decode', 'on a plain graph the value returned by the real code is not decode(node hash): the theorem '
                'CM.C05.hash_determines_value no longer describes the code', {'suite': 'S-VM', 'theorems': list(lean['theorems']),
                                                                                'cases': stats['decode_bad'][:2]}, found_input=False))
        return stats, bad
    from ..par import soft
    stats, bad = soft('S-HASH/S-VM (engine level)', engine_part) or ({}, [])
    # concurrent evaluations sharing edge objects: the node hash a call computes while other calls run (deterministic
    # scheduler of S-SCHED, keys with gated equality) must be the hash of a sequential execution
    from .. import suite_sched
    sched = pmap(suite_sched.run_shard, [(seed * 4447 + i + 3, 6, (12, 6) if tier == 'quick' else (60, 30), tier != 'quick')
                                         for i in range(shards)])
    hash_races = [p for o in sched for p in o[1] if p['msg'].startswith('HASH')]
    for p in hash_races[:3]:
        res.violations.append(Violation('c05-concurrent-hash', p['msg'][:400], {'suite': 'S-SCHED', **p}))
    res.coverage['concurrent_hash_schedules'] = sum(o[0]['schedules'] for o in sched)
    # explicit Function(...) bindings with Silent keywords written in any order (pipeline level)
    ef = pmap(_explicit_shard, [(seed * 613 + i + 1, 12 if tier == 'quick' else 100) for i in range(shards)])
    for p in [p for o in ef for p in o[1] if p.get('kind') != 'silent-changes-hash'][:3]:
        res.violations.append(Violation('c05-explicit-function', p['msg'][:400], {'suite': 'S-HASH/explicit', **p}))
    res.coverage['explicit_function_cases'] = sum(o[0] for o in ef)
    # dataset-wide layers differing in one option (keep / drop, id lists, grouping keys, join modes): equal digest => equal value
    from .. import suite_ghash
    of = pmap(_option_shard, [(seed * 2711 + i + 5, 6 if tier == 'quick' else 40) for i in range(shards)])
    for p in [p for o in of for p in o[1]][:3]:
        res.violations.append(Violation('c05-option-collision', p['msg'][:400], {'suite': 'S-GHASH/options', **p}))
    res.coverage['option_family_variants'] = sum(o[0] for o in of)
    gf = pmap(_grouped_shard, [(seed * 1931 + i + 7, 6 if tier == 'quick' else 40) for i in range(shards)])
    for p in [p for o in gf for p in o[1]][:3]:
        res.violations.append(Violation('c05-grouped-collision', p['msg'][:400], {'suite': 'S-GHASH/grouped', **p}))
    res.coverage['grouped_family_variants'] = sum(o[0] for o in gf)
    from .. import suite_lru
    ce = pmap(suite_lru.run_columns_and_entries, [(seed * 73 + i + 1, 3 if tier == 'quick' else 20) for i in range(16)])
    for p in [p for o in ce for p in o[1]][:3]:
        res.violations.append(Violation('c05-shard-key-is-entry-key', p['msg'][:400], {'suite': 'S-COL/columns+entries', **p}))
    from .. import suite_hash as _sh
    for p in [p for i in range(3 if tier == 'quick' else 20) for p in _sh.run_default_keywords(seed * 5 + i) if p['kind'] in ('collision', 'error')][:2]:
        res.violations.append(Violation('c05-default-keywords', p['msg'][:400], {'suite': 'S-HASH/default-keywords', **p}))
    for p in _sh.run_byvalue_arrays(seed)[:2]:
        res.violations.append(Violation('c05-by-value-arrays', p['msg'][:400], {'suite': 'S-HASH/by-value-arrays', **p}))
    from .. import suite_external
    ext = pmap(suite_external.run_shard, [(seed * 71 + i + 1, 4 if tier == 'quick' else 30) for i in range(16)])
    for p in [p for o in ext for p in o[1] if p.get('kind') == 'collision'][:3]:
        res.violations.append(Violation('c05-external', p['msg'][:400], {'suite': 'S-EXTERNAL', **p}))
    def summary():
        fam = {}
        for o in outs:
            for k, v in o[6].items():
                fam[k] = fam.get(k, 0) + v
        res.coverage.update({
            'evaluations': stats['calls'] + sum(o[2] for o in outs), 'distinct_nontrivial': sum(o[5] for o in outs),
            'rule': RULE, 'programs': stats['cases'] + sum(fam.values()), 'disagreements_checked': len(bad),
            'samples': [{'family_variants': fam}],
            'distribution': {'kinds': stats['kinds'], 'variants': fam},
            'theorem_instances': {'what': 'call steps on plain graphs (Graph.plainB, proved sound) where the value returned by the REAL code was '
                                  'compared with decode(hden) computed by the driver (CM.C05.hash_determines_value)',
                                  'checked': stats['decode_instances'], 'mismatches': stats['decode_vs_real_mismatch']},
        })

    soft('coverage summary', summary)

def replay(obj, kind):
    if 'a' in obj:
        still = suite_hash.check_pair(obj)
        return (not still), ('still colliding on the real code' if still else 'the two evaluations no longer collide')
    return True, 'correspondence replays are re-run by the check itself'


def witness_f9():
    """FunctionEdge(f, 1, silent=(0,)) on any input and FunctionEdge(f, 1) on the input None get the same hash"""
    from ..paths import use_repo
    use_repo()
    from connectome.engine import FunctionEdge, TreeNode, Graph

    def f(x):
        return x
    x = TreeNode('x', None, None)
    a = Graph([x], TreeNode('a', (FunctionEdge(f, 1, (), (0,)), [x]), None))
    b = Graph([x], TreeNode('b', (FunctionEdge(f, 1), [x]), None))
    return a.get_hash('something')[0] == b.get_hash(None)[0]


def witness_f3():
    """`Transform(y=repr) >> CacheToRam('y')`: y(1) then y(True) returns '1'."""
    from ..paths import use_repo
    use_repo()
    from connectome import Transform, CacheToRam
    p = Transform(y=lambda x: repr(x)) >> CacheToRam('y')
    f = p._compile('y')
    return f(1) == '1' and f(True) == '1'
