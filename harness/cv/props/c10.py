"""C10: decorated functions run forward, then f, then the inverses in reverse order."""
from .. import suite_ctx
from ..runner import Violation
from ..par import pmap
from .c01 import merge_stats

RULE = ('chains of 1-5 layers over the names x, y, z: invertible Transforms (forward and @inverse fields, inverses reading the '
        'layer\'s private parameter or a second inverse input), inheriting layers (True, name lists - also listing a name the layer '
        'inverts itself -, __exclude__), forward-only layers, Apply and cache layers; `_decorate(inputs, outputs, final)(f)` with '
        'str / list / None arguments on symbolic inputs; compared with CM.Model.Loopback and with the reference (forward fields in '
        'order, f, inverse fields in reverse order; each function once); missing inverse paths must be rejected with an error. '
        'S-NODE: the EdgesBag.loopback calls made meanwhile are replayed on the node-level model CM.Model.Bag (Context.reverse, function_to_bag). '
        'Non-trivial: >= 2 layers and a value was returned; distinct by JSON')


def run(tier, seed, res, lean):
    shards = 16 if tier == 'quick' else 64
    per = 60 if tier == 'quick' else 500
    outs = pmap(suite_ctx.run_shard, [(seed * 6029 + i + 59, per) for i in range(shards)])
    stats = merge_stats([o[0] for o in outs])
    oracle_bad = [b for o in outs for b in o[1]]
    model_bad = [b for o in outs for b in o[2]]
    for b in oracle_bad[:6]:
        res.violations.append(Violation('c10-oracle', b['msg'][:400], {'suite': 'S-CTX', **b}))
    if model_bad and not oracle_bad:
        res.violations.append(Violation('c10-correspondence', 'the real loopback and CM.Model.Loopback disagree; theorems C10.* no longer tied to the code',
                                        {'suite': 'S-CTX', 'theorems': list(lean['theorems']), **model_bad[0]}, found_input=False))
    # node level: every EdgesBag.loopback call (connect with the function's bag, Context.reverse through the chain of contexts,
    # the final EdgesBag) recorded on the real code and replayed on CM.Model.Bag
    from .c02 import node_part
    node = node_part(tier, seed + 1, res, lean, 'C10', ['ctx'], ops={'loopback', 'factory'})
    res.coverage['node_level'] = node
    # inverses with arguments typed as forward nodes of their own layer
    from .. import suite_ctx as _sc
    for p in [p for i in range(8 if tier == 'quick' else 40) for p in _sc.run_typed_inverse(seed * 89 + i)][:3]:
        res.violations.append(Violation('c10-typed-inverse-argument', p['msg'][:400], {'suite': 'S-CTX/typed-inverse', **p}))
    res.coverage.update({
        'evaluations': stats['cases'], 'distinct_nontrivial': stats['distinct_nontrivial'], 'rule': RULE,
        'programs': stats['cases'], 'disagreements_checked': len(model_bad) + len(oracle_bad),
        'samples': [outs[0][3]], 'distribution': {k: stats[k] for k in ('ok', 'rejected', 'layers')},
    })


def replay(obj, kind):
    from ..suite_ctx import reference, compare
    return True, 'cases are replayed by re-running the check with the same VERIF_SEED (the generator is deterministic)'
