"""C09: chaining is associative and never mutates or couples its operands."""
from .. import suite_alias
from ..runner import Violation
from ..par import pmap
from .c01 import merge_stats

RULE = ('random layer sequences (see C02) whose layer *objects* are created once and composed in up to 5 bracketings / '
        'flavours (flat Chain, >>, random nested Chain / LazyChain / >> trees), plus one pipeline that uses a layer object '
        'twice (compared with a fresh copy at the second position), plus decoy instances of the same classes with ==-equal '
        'arguments; plus one Filter / keep / GroupBy / CacheToRam / Transform object shared by two pipelines over different sources with equal field names (compared with fresh copies, ids, values, errors and hashes); every operand and every earlier pipeline is re-observed after all compositions. Observed per variant: '
        'dir, and for 8 names signature, symbolic value, NodeHash tree or exception class. The most nested variant is also '
        'compared with CM.Model.Pipe/Stack. Non-trivial: >= 3 variants constructed; distinct by JSON of the sequence')


def run(tier, seed, res, lean):
    shards = 16 if tier == 'quick' else 64
    per = 40 if tier == 'quick' else 300
    outs = pmap(suite_alias.run_shard, [(seed * 31337 + i + 1, per) for i in range(shards)])
    stats = merge_stats([o[0] for o in outs])
    problems = [p for o in outs for p in o[1]]
    model_bad = [p for o in outs for p in o[2]]
    for p in problems[:8]:
        res.violations.append(Violation('c09-' + p['kind'], p['msg'][:400], {'suite': 'S-ALIAS', **p}))
    if model_bad and not problems:
        res.violations.append(Violation(
            'c09-correspondence', 'the real pipeline and CM.Model.Pipe/Stack disagree; theorems C09.* no longer tied to the code',
            {'suite': 'S-ALIAS', 'theorems': list(lean['theorems']), **model_bad[0]}, found_input=False))
    # node level: every connect_bags call made while stacks and dataset pipelines are built leaves both operands as they were
    from .c02 import node_part
    res.coverage['node_level'] = node_part(tier, seed + 2, res, lean, 'C09', ['stack', 'rel'], ops={'connect'})
    res.coverage.update({
        'evaluations': stats['variants'], 'distinct_nontrivial': stats['distinct_nontrivial'], 'rule': RULE,
        'programs': stats['cases'], 'disagreements_checked': len(model_bad) + len(problems),
        'samples': [o[3] for o in outs[:1] if o[3]] or [{'note': 'none'}],
        'distribution': {k: stats[k] for k in ('cases', 'variants', 'with_nested', 'twice', 'construct_err', 'shared_dynamic')},
    })


def replay(obj, kind):
    # the generator is deterministic per stack only through its seed; re-run the family of the recorded stack
    from ..suite_bag import compare
    diffs, _ = compare(obj['stack'])
    return (not diffs), ('recorded stack: ' + (str(diffs[:2])[:400] if diffs else 'agrees with the reference; re-run the check for the bracketing family'))
