"""C11: concurrent calls on one pipeline behave like sequential calls."""
from .. import suite_sched
from ..runner import Violation
from ..par import pmap
from .c01 import merge_stats

RULE = ('2 (thorough: 2-3) real threads, each making 1-2 calls of fields of one pipeline object Source >> Transform >> '
        'CacheToRam(size in 1, 2, None; one or two cached fields), Merge(A, B) >> Transform >> CacheToRam, or Source >> Transform >> '
        'CacheColumns(shard_size None, 2, 3; fresh storage per schedule), with equal and different keys (in a third of the scenarios '
        'string keys whose equality test is itself a gate, each thread repeating a key), under a deterministic scheduler: '
        'every entry of a user function and every acquisition of a MemoryCache lock (cache layers and the column cache\'s RAM table) is a gate where exactly the thread named by '
        'the schedule proceeds; schedules: a shuffled sample of all words of depth 6 (thorough: 8) over the thread ids plus random '
        'longer ones; the cache lock and table are wrapped by proxies logging the lock state at every table access. Oracle: every '
        'call returns the sequential value and computes the sequential node hash, nothing raises, every table access is made by the lock holder. '
        'distinct_nontrivial = schedules run to completion')


def run(tier, seed, res, lean):
    shards = 32 if tier == 'quick' else 128
    depth = 6 if tier == 'quick' else 8
    per = (24, 6) if tier == 'quick' else (120, 40)
    outs = pmap(suite_sched.run_shard, [(seed * 3301 + i + 71, depth, per, tier != 'quick') for i in range(shards)])
    stats = merge_stats([{k: v for k, v in o[0].items() if k != 'size'} for o in outs])
    problems = [p for o in outs for p in o[1]]
    # the first calls on a fresh pipeline object (lazy compilation of the fields) from two threads, interleaved line by line inside
    # the compiler and the layer code
    fu = pmap(suite_sched.run_first_use, [(seed * 977 + i + 5, i, tier != 'quick') for i in range(16)])
    problems += [p for o in fu for p in o[1]]
    first_use_runs = sum(o[0]['first_use_runs'] for o in fu)
    # two threads inside ONE compiled function (keyword and positional bindings), the second cutting in after every engine line
    sd = pmap(suite_sched.run_steady, [(seed * 389 + i + 9, i, tier != 'quick') for i in range(16)])
    problems += [p for o in sd for p in o[1]]
    res.coverage['steady_line_sweep_runs'] = sum(o[0]['steady_runs'] for o in sd)
    # two threads in ONE group of a GroupBy whose ids have a Python-level order comparison (a gate): every cut-in point
    gs, gp = suite_sched.run_group_sweep((seed, tier != 'quick'))
    problems += gp
    res.coverage['group_sweep_runs'] = gs['group_runs']
    for p in problems[:6]:
        kind = 'c11-lock' if 'without holding its lock' in p['msg'] else 'c11-value'
        res.violations.append(Violation(kind, p['msg'][:400], {'suite': 'S-SCHED', **p}))
    sizes = {}
    for o in outs:
        sizes[o[0]['size']] = sizes.get(o[0]['size'], 0) + 1
    res.coverage.update({
        'evaluations': stats['schedules'], 'distinct_nontrivial': stats['schedules'], 'rule': RULE,
        'programs': stats['scenarios'], 'disagreements_checked': len(problems), 'first_use_runs': first_use_runs,
        'samples': [{'scenario': suite_sched.scenario((1, False)), 'plans': [[['x', 'a']], [['x', 'b']]], 'schedule': [0, 0, 1, 1, 0, 1]}],
        'distribution': {'gates_passed': stats['gates'], 'cache_sizes': sizes, 'threads': stats['threads']},
    })


def replay(obj, kind):
    pr, _ = suite_sched.check_one(obj['desc'], [[tuple(c) for c in plan] for plan in obj['plans']], obj['schedule'])
    return (not pr), (pr[0] if pr else 'the recorded schedule now gives the sequential values')
