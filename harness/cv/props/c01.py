"""C01: a compiled field returns exactly what composing the user functions returns."""
import json
from .. import suite_vm, oracle_vm, suite_compile
from ..runner import Violation
from ..par import pmap

FIELDS = ('value', 'sig', 'valid')
RULE = ('random engine-level DAGs (1-3 inputs, up to N nodes over all edge kinds of CM.Model.Graph, shared and '
        'repeated parents, keyword/silent bindings, caches shared between edges, fault injection, histories of 1-5 '
        'calls); a case counts as non-trivial when the requested output reaches >= 3 non-leaf nodes and at least '
        'one node has >= 2 parent occurrences; distinct by SHA-1 of (nodes, step)')


def _shard(args):
    seed, n, max_nodes = args
    out = suite_vm.run_suite(seed, n, max_nodes=max_nodes)
    bad = []
    oracle_bad = []
    for case, steps, real, model, diffs in out['results']:
        d = [x for x in diffs if x[1] in FIELDS or x[1] == 'driver']
        if d:
            bad.append({'case': case, 'steps': steps, 'diffs': d[:5]})
        for i, (st, r) in enumerate(zip(steps, real)):
            msg = oracle_vm.check_call(case, st, r, None)
            if msg:
                oracle_bad.append({'case': case, 'steps': steps[:i + 1], 'step': i, 'msg': msg})
    sample = None
    for case, steps, real, model, diffs in out['results'][:1]:
        sample = {'nodes': case['nodes'], 'steps': steps, 'real': real}
    return out['stats'], bad, oracle_bad, sample


def merge_stats(stats_list):
    tot = {}
    for s in stats_list:
        for k, v in s.items():
            if isinstance(v, list):
                tot.setdefault(k, []).extend(v)
            elif isinstance(v, dict):
                d = tot.setdefault(k, {})
                for a, b in v.items():
                    d[a] = d.get(a, 0) + b
            else:
                tot[k] = tot.get(k, 0) + v
    return tot


def run(tier, seed, res, lean):
    shards = 16 if tier == 'quick' else 64
    per = 120 if tier == 'quick' else 600
    jobs = [(seed * 1000003 + i, per, 18 if i % 4 else 40) for i in range(shards)]
    outs = pmap(_shard, jobs)
    comp = pmap(suite_compile.run_shard, [(seed * 31337 + i, 40 if tier == 'quick' else 300) for i in range(16)])
    for b in [b for o in comp for b in o[1]][:4]:
        res.violations.append(Violation('c01-compile-order', b['msg'][:500], {'suite': 'S-COMPILE', **b}))
    # fields defined by hash_by_value(prepare=..., compute=...), with a pure and an @impure prepare step: the call returns g(f(x))
    from .. import suite_impure
    for b in [b for b in suite_impure.run_combined() if b['kind'] == 'c01'][:2]:
        res.violations.append(Violation('c01-combined-by-value', b['msg'][:300], {'suite': 'S-IMPURE/combined', **b}))
    # External layers (ordinary objects wrapped as layers): every compiled field returns what the wrapped object returns
    from .. import suite_external
    ext = pmap(suite_external.run_shard, [(seed * 59 + i + 1, 4 if tier == 'quick' else 30) for i in range(16)])
    for p in [p for o in ext for p in o[1] if p.get('kind') != 'collision'][:3]:
        res.violations.append(Violation('c01-external', p['msg'][:400], {'suite': 'S-EXTERNAL', **p}))
    stats = merge_stats([o[0] for o in outs])
    bad = [b for o in outs for b in o[1]]
    oracle_bad = [b for o in outs for b in o[2]]
    for b in [b for b in oracle_bad if b['msg'].startswith('HIDDEN-CHECKIDS')][:2]:
        res.violations.append(Violation('c01-checkids-bypassed', b['msg'],
                                        {'suite': 'S-VM', 'signature': {'kind': 'checkids_upstream_of_shared_cache'}, **b}))
    oracle_bad = [b for b in oracle_bad if not b['msg'].startswith('HIDDEN-CHECKIDS')]
    for b in oracle_bad[:10]:
        small = shrink(b)
        res.violations.append(Violation('c01-oracle', small['msg'], {'suite': 'S-VM', **small}))
    if bad and not oracle_bad:
        b = bad[0]
        res.violations.append(Violation(
            'c01-correspondence', 'vm.py/edges.py/graph.py and CM.Model.VM disagree; theorems C01.* no longer tied to the code',
            {'suite': 'S-VM', 'theorems': list(lean['theorems']), **b}, found_input=False))
    res.coverage.update({
        'evaluations': stats['calls'] + sum(o[0] for o in comp), 'tuple_requests_through_GraphCompiler': sum(o[0] for o in comp), 'distinct_nontrivial': stats['nontrivial'], 'rule': RULE,
        'programs': stats['cases'], 'disagreements_checked': len(bad),
        'samples': [outs[0][3]], 'distribution': {k: stats[k] for k in ('kinds', 'errors', 'sizes')},
        'model_vm_vs_denotation_mismatches': stats['den_mismatch'],
        'theorem_instances': {
            'what': 'call/hash steps on which the driver evaluated the hypotheses of CM.C01.compiled_value/compiled_hash '
                    '(Graph.okB, Graph.callOKB: proved to imply GraphOK, CallOK) to true; on each the machine result must '
                    'be the denotation or a scheduled user exception',
            'hypotheses_hold': stats['thm_instances'], 'hypotheses_fail (cache edges / unbound input)': stats['thm_hyp_false'],
            'contradicted': stats['thm_contradicted'],
            'with_cache_edges_on_exact_stores (CM.C04.full_spec_along_history + CM.C05)': stats['cached_thm_instances'],
            'with_cache_edges_contradicted': stats['cached_thm_contradicted']},
    })
    if stats['thm_contradicted'] or stats['cached_thm_contradicted']:
        raise RuntimeError('the compiled driver contradicts the proved theorem CM.C01.compiled_value: model and proof out of sync')


def shrink(b):
    """Delta-debug the failing case on steps and nodes (keeps the oracle failing on the real code)."""
    from ..real_vm import RealVM
    case, steps = b['case'], b['steps']

    def fails(case, steps):
        try:
            real = RealVM(case).run(steps)
        except Exception:
            return None
        for i, (st, r) in enumerate(zip(steps, real)):
            msg = oracle_vm.check_call(case, st, r, None)
            if msg:
                return msg
        return None

    msg = b['msg']
    # drop earlier steps
    i = 0
    while i < len(steps) - 1:
        cand = steps[:i] + steps[i + 1:]
        m = fails(case, cand)
        if m:
            steps, msg = cand, m
        else:
            i += 1
    # cut unreachable nodes
    from ..gen_vm import reachable
    keep = set()
    for st in steps:
        if 'out' in st:
            keep |= reachable(case, st['out'])
    order = sorted(keep | set(case['inputs']))
    remap = {o: i for i, o in enumerate(order)}
    try:
        nodes = [dict(case['nodes'][o], parents=[remap[p] for p in case['nodes'][o]['parents']]) for o in order]
        cand_case = dict(case, nodes=nodes, inputs=[remap[i] for i in case['inputs']])
        cand_steps = [dict(st, out=remap[st['out']]) if 'out' in st else st for st in steps]
        m = fails(cand_case, cand_steps)
        if m:
            case, steps, msg = cand_case, cand_steps, m
    except KeyError:
        pass
    return {'case': case, 'steps': steps, 'msg': msg}


def replay(obj, kind):
    from ..real_vm import RealVM
    case, steps = obj['case'], obj['steps']
    real = RealVM(case).run(steps)
    for st, r in zip(steps, real):
        msg = oracle_vm.check_call(case, st, r, None)
        if msg:
            return False, 'still failing on the real code: ' + msg
    return True, 'the oracle passes on the recorded case'


def witness_f10():
    from .c04 import witness_f10 as w
    return w()
