"""C15: Filter changes only ids; CheckIds only rejects foreign ids."""
from .relcommon import run_rel, replay_rel

RULE = ('datasets (sources, transforms, merges) under 1-2 stacked Filters whose predicates are tables over 1-2 fields '
        '(including id; declared in non-alphabetical order too), Filter.keep / Filter.drop, and CheckIds before/after; ids and '
        'every field on 8 universe ids + a foreign id compared with CM.Model.Rel and the reference (list comprehension over the '
        'unfiltered pipeline); node hashes of all other fields compared before/after the layer. Non-trivial: >= 2 ids left')


def run(tier, seed, res, lean):
    run_rel('C15', ['filter', 'filter', 'check_ids'], tier, seed, res, lean, RULE)


replay = replay_rel


def witness_f8():
    """Filter over a field that does not depend on the id raises TypeError"""
    from ..paths import use_repo
    use_repo()
    from connectome import Source, Filter, meta

    class A(Source):
        @meta
        def ids():
            return ('a1', 'a2')

        @meta
        def flag():
            return True

        def x(i):
            return i
    try:
        (A() >> Filter(lambda flag: flag)).ids
        return False
    except TypeError:
        return True
