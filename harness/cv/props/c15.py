"""C15: Filter changes only ids; CheckIds only rejects foreign ids."""
from .relcommon import run_rel, replay_rel

RULE = ('datasets (sources, transforms, merges) under 1-2 stacked Filters whose predicates are tables over 1-2 fields '
        '(including id; declared in non-alphabetical order too), Filter.keep / Filter.drop, and CheckIds before/after; ids and '
        'every field on 8 universe ids + a foreign id compared with CM.Model.Rel and the reference (list comprehension over the '
        'unfiltered pipeline); node hashes of all other fields compared before/after the layer. Non-trivial: >= 2 ids left')


def run(tier, seed, res, lean):
    run_rel('C15', ['filter', 'filter', 'check_ids'], tier, seed, res, lean, RULE)
    # the container CheckIds._connect builds against CM.Model.CheckIds (node_checkids_transparent / node_checkids_rejects are about it)
    from .. import suite_factory
    from ..par import pmap
    from ..runner import Violation
    outs = pmap(suite_factory.run_checkids_shard, [(seed * 1319 + i + 1, 12 if tier == 'quick' else 80) for i in range(16)])
    bad = [b for o in outs for b in o[1]]
    res.coverage['checkids_containers'] = sum(o[0]['checkids'] for o in outs)
    res.coverage['checkids_rejected_previous'] = sum(sum(o[0]['errors'].values()) for o in outs)
    fouts = pmap(suite_factory.run_filter_shard, [(seed * 2657 + i + 1, 12 if tier == 'quick' else 80) for i in range(16)])
    fbad = [b for o in fouts for b in o[1]]
    res.coverage['filter_containers'] = sum(o[0]['filters'] for o in fouts)
    if fbad:
        res.violations.append(Violation(
            'c15-filter-container-correspondence',
            f'the container the real Filter builds and CM.Model.FilterBag.filterConnect differ: {str({k: v for k, v in fbad[0].items() if k != "desc"})[:300]}',
            {'suite': 'S-FACTORY/filter', 'theorems': [t for t in lean['theorems'] if 'node_' in t], **fbad[0]}, found_input=False))
    # CheckIds is hash-transparent also for the dataset-wide layers stacked on top of it
    from .. import suite_neutral
    for p in [p for i in range(12 if tier == 'quick' else 100) for p in suite_neutral.run_checkids_neutral(seed * 43 + i)][:3]:
        res.violations.append(Violation('c15-checkids-not-transparent', p['msg'][:400], {'suite': 'S-NEUTRAL/checkids', **p}))
    if bad:
        res.violations.append(Violation(
            'c15-checkids-container-correspondence',
            f'the container the real CheckIds builds and CM.Model.CheckIds.checkIdsBag differ: {str({k: v for k, v in bad[0].items() if k != "desc"})[:300]}',
            {'suite': 'S-FACTORY/checkids', 'theorems': [t for t in lean['theorems'] if 'node_' in t], **bad[0]}, found_input=False))


replay = replay_rel


def witness_f8():
    """Filter over a field that does not depend on the id raises TypeError"""
    from ..paths import use_repo
    use_repo()
    from connectome import Source, Filter, meta

    class A(Source):
        @meta
        def ids():
            return ('a1', 'a2')

        @meta
        def flag():
            return True

        def x(i):
            return i
    try:
        (A() >> Filter(lambda flag: flag)).ids
        return False
    except TypeError:
        return True
