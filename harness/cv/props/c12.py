"""C12: a crash during a disk-cache write never corrupts what later runs read."""
import os, shutil, tempfile
from .. import suite_crash, paths
from ..runner import Violation
from ..par import pmap

RULE = ('CacheToDisk.simple and CacheColumns(shard_size=2) over a Source (also on a storage configured to keep labels: JsonLabels, and with labels passed to the cache layer on either kind of storage), values going through the pickle and the JSON '
        'serializer; the writer process (fork, fresh pipeline objects) is killed with os._exit right before every file-system '
        'mutation under the storage root (os.mkdir/chmod/chown/rename/remove/..., opening a file for writing: audit hook) and in '
        'the middle of every file write (half of the data written, flushed), with an older complete entry of another key present; '
        'then two later processes evaluate both keys: values must be correct, and the second must recompute nothing. Also: after '
        'complete writes, random subsets of index files are removed or truncated and blob files removed, then the same two later '
        'processes. exhaustive over the crash points of one write per (cache kind, serializer). distinct_nontrivial = crash points '
        'and loss sets whose later runs were checked')


def run(tier, seed, res, lean):
    os.makedirs(paths.SCRATCH, exist_ok=True)
    scratch = tempfile.mkdtemp(prefix='cv-crash-', dir=paths.SCRATCH)
    try:
        combos = [('disk', 'pickle'), ('columns', 'pickle'), ('disk+labels', 'pickle'), ('disk+uselabels', 'pickle'),
                  ('disk+labels+uselabels', 'pickle')] if tier == 'quick' else \
            [('disk', 'pickle'), ('disk', 'json'), ('columns', 'pickle'), ('columns', 'json'), ('disk+labels', 'pickle'),
             ('columns+labels', 'json'), ('disk+uselabels', 'pickle'), ('disk+uselabels', 'json'), ('disk+labels+uselabels', 'pickle')]
        jobs, points = [], {}
        for kind, vk in combos:
            n, events = suite_crash.count_mutations(kind, vk, scratch)
            points[f'{kind}/{vk}'] = {'mutations': n, 'events': events}
            for i in range(1, n + 1):
                jobs.append(('crash', (kind, vk, 'a', i, False, scratch)))
                if events[i - 1] == 'write':
                    jobs.append(('crash', (kind, vk, 'a', i, True, scratch)))
            for s in range(6 if tier == 'quick' else 30):
                jobs.append(('loss', (kind, vk, seed * 131 + s, scratch)))
        outs = pmap(_job, jobs)
        checked = 0
        for what, problems, ran in outs:
            checked += 1 if ran else 0
            for p in problems[:2]:
                if what.startswith('disk+labels+uselabels/') and 'JSONDecodeError' in p and ': crash ' in what:
                    # F11: tarn's JsonLabels rewrites the labels file in place (storage configured by the user to keep labels)
                    res.violations.append(Violation('c12-labels-file', p[:500], {
                        'suite': 'S-CRASH', 'what': what, 'msg': p,
                        'signature': {'site': 'tarn.JsonLabels.update', 'storage': 'configured by the user with labels: JsonLabels'}}))
                else:
                    res.violations.append(Violation('c12-crash', p[:500], {'suite': 'S-CRASH', 'what': what, 'msg': p}))
        known = [v for v in res.violations if v.kind == 'c12-labels-file']
        res.violations[:] = [v for v in res.violations if v.kind != 'c12-labels-file'][:8] + known[:1]
        # several index folders: an entry known through one folder only, then lost
        il_runs, il_bad = suite_crash.run_index_levels(seed)
        for b in il_bad[:3]:
            res.violations.append(Violation('c12-index-levels', b['msg'][:400], {'suite': 'S-CRASH/index-levels', **b}))
        res.coverage['index_level_runs'] = il_runs
        # a writer in the middle of a write while another user of the same root starts up / reads
        co_runs, co_bad = suite_crash.run_concurrent_open(seed)
        for b in co_bad[:3]:
            res.violations.append(Violation('c12-concurrent-open', b['msg'][:400], {'suite': 'S-CRASH/concurrent-open', **b}))
        res.coverage['concurrent_open_runs'] = co_runs
        # the generation of a big column shard killed several times in a row (a real death inside the user function)
        ck_runs, ck_bad = suite_crash.run_columns_kills(seed)
        for b in ck_bad[:3]:
            res.violations.append(Violation('c12-columns-kills', b['msg'][:400], {'suite': 'S-CRASH/columns-kills', **b}))
        res.coverage['columns_kill_runs'] = ck_runs
        res.coverage.update({
            'evaluations': len(jobs), 'distinct_nontrivial': checked, 'rule': RULE, 'programs': len(combos),
            'disagreements_checked': 0, 'exhaustive': True,
            'samples': [points], 'distribution': {'jobs': len(jobs), 'checked': checked, 'points': points},
        })
    finally:
        shutil.rmtree(scratch, ignore_errors=True)


def _job(j):
    kind, args = j
    return suite_crash.crash_job(args) if kind == 'crash' else suite_crash.loss_job(args)


def witness_f11():
    """F11: storage configured with JsonLabels + labels passed: die right after the labels file is opened for writing"""
    os.makedirs(paths.SCRATCH, exist_ok=True)
    scratch = tempfile.mkdtemp(prefix='cv-crash-', dir=paths.SCRATCH)
    try:
        n, events = suite_crash.count_mutations('disk+labels+uselabels', 'pickle', scratch)
        if 'open:w' not in events:
            return False
        i = events.index('open:w') + 1
        what, problems, ran = suite_crash.crash_job(('disk+labels+uselabels', 'pickle', 'a', i, False, scratch))
        return bool(ran and problems)
    finally:
        shutil.rmtree(scratch, ignore_errors=True)


def replay(obj, kind):
    return True, 'crash points are enumerated exhaustively by every run of the check: ' + obj.get('what', '')
