"""C19: pickling a compiled function preserves its behaviour and its hashes."""
import re
from .. import suite_pickle
from ..runner import Violation

RULE = ('25 pipelines (17 fixed, 5 fixed and 3 seed-dependent combinations of several dataset-wide layers - Filter, keep, CheckIds, Merge, GroupBy - under disk and column caches) over sources, transforms (private parameters, constructor arguments, keyword bindings via Function(f, ..., '
        'name=...)), Apply, nested chains, Merge, Filter (table predicate, keep, drop, over a keyword-bound field), CheckIds, GroupBy, '
        'CacheToRam (unbounded, LRU), CacheToDisk, CacheColumns; single and multi-field compilations; every compiled function is '
        'called on 7 ids (which populates the caches), pickled, unpickled in-process and in a fresh interpreter (PYTHONHASHSEED=7): '
        'signature, values and persistent digests must be equal, RAM caches of the copy empty (and recomputation observed), disk '
        'caches served from the same storage. distinct_nontrivial = compiled functions that could be pickled')

SITE = re.compile(r"local object '([^']+)\.<locals>")


def run(tier, seed, res, lean):
    stats, problems = suite_pickle.run_check(seed + 1)
    if tier == 'thorough':
        for s in range(2, 6):
            st, pr = suite_pickle.run_check(seed + s)
            problems += pr
            stats = {k: stats[k] + st[k] for k in stats}
    for p in problems:
        if p.get('kind') == 'not-picklable':
            m = SITE.search(p['msg'])
            site = m.group(1) if m else 'unknown'
            res.violations.append(Violation('c19-not-picklable', p['msg'][:300], {'suite': 'S-PICKLE', 'signature': {'site': site}, **p}))
        else:
            res.violations.append(Violation('c19-changed', p['msg'][:300], {'suite': 'S-PICKLE', **p}))
    res.coverage.update({
        'evaluations': stats['values'], 'distinct_nontrivial': stats['picklable'], 'rule': RULE,
        'programs': stats['functions'], 'disagreements_checked': len(problems), 'samples': [stats],
    })


def replay(obj, kind):
    return True, 'cases are replayed by re-running the check (the pipelines are fixed)'


def _not_picklable(desc, field):
    import pickle
    from ..pipeline import Builder
    try:
        pickle.dumps(Builder().layer(desc)._compile(field))
        return False
    except Exception:
        return True


def _src():
    return {'k': 'source', 'cls': 'W', 'ids': ['i1', 'i2'], 'fields': {'a': {'args': ['i']}, 'k': {'args': ['i'], 'table': [[['i1'], 'u'], [['i2'], 'v']]}},
            'params': {}, 'cargs': {}, 'defaults': {}}


def witness_f6_keep():
    return _not_picklable({'k': 'chain', 'flavour': 'chain', 'layers': [_src(), {'k': 'keep', 'ids': ['i1']}]}, 'ids')


def witness_f6_drop():
    return _not_picklable({'k': 'chain', 'flavour': 'chain', 'layers': [_src(), {'k': 'drop', 'ids': ['i1']}]}, 'ids')


def witness_f6_groupby():
    return _not_picklable({'k': 'chain', 'flavour': 'chain', 'layers': [_src(), {'k': 'groupby', 'by': 'k'}]}, 'ids')
