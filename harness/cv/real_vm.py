"""Build and drive the real engine objects for an abstract graph description."""
from . import paths
from .codec import val_to_json, hash_to_json, exc_name
from .sym import SymWorld


def json_to_py(j):
    """JSON value of a description -> Python value (lists become tuples)."""
    if isinstance(j, list):
        return tuple(json_to_py(x) for x in j)
    if isinstance(j, dict):
        if 'd' in j:
            ks, vs = j['d']
            return {json_to_py(k): json_to_py(v) for k, v in zip(ks, vs)}
        if 'a' in j and str(j['a']).startswith('float:'):
            return float(j['a'][6:])
        if 'app' in j and j['app'][0] == '$list':
            return [json_to_py(x) for x in j['app'][1]]
        if 'app' in j and j['app'][0] == '$path':
            import pathlib
            return pathlib.PurePosixPath(j['app'][1][0])
        if 'app' in j and j['app'][0] == '$bytes':
            return j['app'][1][0].encode('latin1')
        raise ValueError(j)
    return j


class RealVM:
    def __init__(self, case, world=None):
        paths.use_repo()
        from connectome.engine import (TreeNode, FunctionEdge, IdentityEdge, ConstantEdge, ProductEdge, CacheEdge,
                                       HashBarrier, ComputableHashEdge, ImpureEdge, Graph)
        from connectome.layers.merge import SwitchEdge
        from connectome.layers.join import SwitchBranch, SwitchMissing
        from connectome.layers.check_ids import CheckIdsEdge
        from connectome.cache import MemoryCache
        self.Graph = Graph
        self.world = world or SymWorld()
        for name in case.get('impure', []):
            self.world.impure.add(name)
        for name, v in case.get('const_fns', []):
            self.world.consts[name] = json_to_py(v)
        self.stores = [MemoryCache(s) for s in case.get('stores', [])]
        self.case = case

        def mk_edge(e, arity):
            k = e['k']
            if k == 'fn':
                return FunctionEdge(self.world.fn(e['f']), arity, tuple(e.get('kw', ())), tuple(e.get('silent', ())))
            if k == 'ident':
                return IdentityEdge()
            if k == 'const':
                return ConstantEdge(json_to_py(e['v']))
            if k == 'product':
                return ProductEdge(arity)
            if k == 'cache':
                return CacheEdge(self.stores[e['store']])
            if k == 'barrier':
                return HashBarrier()
            if k == 'byvalue':
                return ComputableHashEdge(mk_edge(e['inner'], arity))
            if k == 'impure':
                return ImpureEdge(mk_edge(e['inner'], arity))
            if k == 'switch':
                return SwitchEdge({json_to_py(key): idx for key, idx in e['table']}, arity - 1)
            if k == 'switch_branch':
                return SwitchBranch()
            if k == 'switch_missing':
                return SwitchMissing(e['index'])
            if k == 'check_ids':
                return CheckIdsEdge()
            raise ValueError(k)

        self.nodes = []
        for n in case['nodes']:
            if n['edge'] is None:
                self.nodes.append(TreeNode(n['name'], None, None))
            else:
                parents = [self.nodes[p] for p in n['parents']]
                self.nodes.append(TreeNode(n['name'], (mk_edge(n['edge'], len(parents)), parents), None))
        self.inputs = [self.nodes[i] for i in case['inputs']]
        self._graphs = {}

    def graph(self, out):
        if out not in self._graphs:
            self._graphs[out] = self.Graph(self.inputs, self.nodes[out])
        return self._graphs[out]

    def step(self, st):
        w = self.world
        t = st['t']
        if t == 'clear':
            self.stores[st['store']].clear()
            return {'ok': None}
        try:
            g = self.graph(st['out'])
        except AssertionError:
            return {'r': {'err': 'AssertionError'}, 'valid': False}
        if t == 'hash_graph':
            try:
                return {'h': {'ok': hash_to_json(g.hash().value, w)}, 'valid': True}
            except Exception as e:
                return {'h': {'err': exc_name(e)}, 'valid': True}
        sig = [p for p in g.__signature__.parameters]
        if t == 'sig':
            return {'sig': sig, 'valid': True}
        env = {k: json_to_py(v) for k, v in st['env'].items()}
        mark = w.mark()
        w.fail_at = {w.serial + k for k in st.get('fail_at', [])}
        try:
            if t == 'call' and st.get('two_phase'):
                # the two-phase form CacheColumns uses: the hash first, the value later from the state of the hash phase
                _, state = g.get_hash(*[env[k] for k in sig])
                v = g.get_value(*state)
                r = {'ok': val_to_json(v, w)}
            elif t == 'call':
                v = g(**{k: env[k] for k in sig})
                r = {'ok': val_to_json(v, w)}
            else:
                h, _ = g.get_hash(*[env[k] for k in sig])
                r = {'ok': hash_to_json(h.value, w)}
        except Exception as e:
            r = {'err': exc_name(e)}
        log = [[f, [val_to_json(x, w) for x in pos], [k for k, _ in kw], [val_to_json(x, w) for _, x in kw]]
               for f, pos, kw in w.since(mark)]
        out = {'r': r, 'log': log, 'sig': sig}
        if t == 'call':
            out['sizes'] = [len(s._cache) for s in self.stores]
        return out

    def run(self, steps):
        return [self.step(st) for st in steps]
