"""Common flow of every check: build + audit the Lean side, run the property's suites and oracles against
/repo's working tree, search for a failing input when something no longer checks, report, write evidence."""
import hashlib, importlib, json, os, sys, time, traceback
from . import paths, leanproj, findings

TRUSTED_BASE = [
    "Lean 4.33.0 kernel and elaborator; axioms of every property theorem audited with #print axioms: "
    "subset of {propext, Classical.choice, Quot.sound}; no sorry/admit/native_decide/bv_decide/own axioms",
    "the hand-written Lean model (lean/CM/Model) is a model of the Python code, tied to /repo only by the "
    "correspondence suites (differential execution on generated cases) and the direct oracles",
    "CPython semantics of generators, dict, deque, tuple equality/hashing; pylru; tarn; threading.Lock",
    "the Python harness, the JSON line protocol and the compiled Lean driver (Lean compiler + C toolchain)",
]


class Violation:
    def __init__(self, kind, what, replay, found_input=True):
        self.kind = kind              # short machine-readable signature, matched against known findings
        self.what = what              # human-readable one-liner
        self.replay = replay          # JSON-able object reproducing it
        self.found_input = found_input


class Result:
    def __init__(self):
        self.violations = []
        self.coverage = {}
        self.assumptions = []
        self.notes = []


def write_replay(pid, v):
    os.makedirs(paths.REPLAYS, exist_ok=True)
    body = json.dumps({'property': pid, 'kind': v.kind, 'what': v.what, 'found_input': v.found_input,
                       'replay': v.replay}, indent=1, sort_keys=True, default=str)
    name = f'{pid}-{hashlib.sha1(body.encode()).hexdigest()[:12]}.json'
    path = os.path.join(paths.REPLAYS, name)
    with open(path, 'w') as f:
        f.write(body)
    return path


def load_module(pid):
    return importlib.import_module(f'cv.props.{pid.lower()}')


def run_check(pid, tier, seed):
    t0 = time.time()
    mod = load_module(pid)
    lean = leanproj.audit(pid)
    if not lean['built'] or (not lean['ok'] and not getattr(mod, 'LEAN_DEPENDS_ON_REPO', False)):
        # our own Lean does not build / audit: a failure of the machinery, never a violation
        print(f'MACHINERY-FAILURE property={pid}: ' + '\n'.join(lean['problems'])[:4000])
        return 2
    recheck = None
    if tier == 'thorough':
        ok, recheck = leanproj.recheck(pid)
        if not ok:
            print(f'MACHINERY-FAILURE property={pid}: {recheck}')
            return 2
    res = Result()
    from . import par
    del par.DRIFT[:]
    try:
        mod.run(tier, seed, res, lean)
    except Exception:
        if not par.DRIFT:
            print(f'MACHINERY-FAILURE property={pid}:')
            traceback.print_exc()
            return 2
        # a suite could not be driven at all and what follows it depends on its results
        par.DRIFT.append((f'cv.props.{pid.lower()}.run', traceback.format_exc()[-3000:]))
    if par.DRIFT:
        # the harness drives internal interfaces of /repo (edge classes, containers, caches); when one of them changes the model can no
        # longer be compared with the code on those cases: the tie of the theorems to the code is lost there.  The suites that still
        # run search for a failing input; this entry names what could not be driven.
        where = sorted({w for w, _ in par.DRIFT})
        res.violations.append(Violation(
            'correspondence-not-drivable',
            f'{len(par.DRIFT)} job(s) of {", ".join(where)[:200]} raised while driving the code under test: {par.DRIFT[0][1].strip().splitlines()[-1][:300]}',
            {'suite': where, 'theorems': list(lean['theorems']), 'tracebacks': [t for _, t in par.DRIFT[:3]]}, found_input=False))
    if not lean['ok']:
        # a generated obligation (constants regenerated from /repo) no longer checks and no suite found an input
        if not res.violations:
            res.violations.append(Violation('lean-obligation', 'a Lean obligation regenerated from /repo no longer checks',
                                            {'problems': lean['problems']}, found_input=False))
    known, fresh = findings.split(pid, res.violations)
    seen = set()
    for k in findings.replayed_known(pid, mod):
        seen.add(f'KNOWN-FINDING: property={pid} {k}')
        print(f'KNOWN-FINDING: property={pid} {k}')
    for v, entry in known:
        line = f'KNOWN-FINDING: property={pid} {entry["text"]}'
        if line not in seen:
            seen.add(line)
            print(line)
    lines = []
    for v in fresh:
        path = write_replay(pid, v)
        tail = '' if v.found_input else ' no-failing-input-found'
        lines.append(f'VIOLATION property={pid} replay={os.path.relpath(path, paths.VERIF)}{tail}')
        print(f'  {v.kind}: {v.what}'[:600])
    for line in sorted(set(lines))[:20]:
        print(line)
    cov = dict(res.coverage)
    cov.setdefault('obligations', lean['obligations'])
    cov.setdefault('discharged', lean['discharged'])
    cov.setdefault('checker_cmd', f'cd lean && lake build && lake env lean .lake/audit/{pid}.lean  (#print axioms of '
                                  f'{len(lean["theorems"])} theorems)')
    cov.setdefault('trusted_base', TRUSTED_BASE + getattr(mod, 'TRUSTED', []))
    cov['theorems'] = lean['theorems']
    if recheck:
        cov['leanchecker'] = recheck.strip()
    cov['lean_sources_digest'] = lean.get('digest')
    cov['known_findings_matched'] = sorted({e['id'] for _, e in known})
    ev = {
        'property_id': pid, 'tier': tier, 'seed': seed, 'level': 'proof', 'coverage': cov,
        'assumptions': res.assumptions + getattr(mod, 'ASSUMPTIONS', []),
        'wall_s': round(time.time() - t0, 2), 'violations': len(fresh),
    }
    if res.notes:
        ev['coverage']['notes'] = res.notes
    os.makedirs(paths.EVIDENCE, exist_ok=True)
    with open(os.path.join(paths.EVIDENCE, f'{pid}.json'), 'w') as f:
        json.dump(ev, f, indent=1, sort_keys=True, default=str)
    print(f'{pid} {tier} seed={seed}: obligations {cov["discharged"]}/{cov["obligations"]}, '
          f'evaluations {cov.get("evaluations")}, distinct non-trivial {cov.get("distinct_nontrivial")}, '
          f'violations {len(fresh)}, known {len(known)}, {ev["wall_s"]} s')
    return 1 if fresh else 0


def run_replay(pid, path):
    mod = load_module(pid)
    obj = json.load(open(path))
    ok, text = mod.replay(obj['replay'], obj.get('kind'))
    print(text)
    if ok:
        print(f'replay: the recorded case no longer fails')
        return 0
    print(f'VIOLATION property={pid} replay={path}')
    return 1


def main(argv):
    import argparse
    ap = argparse.ArgumentParser()
    ap.add_argument('pid')
    ap.add_argument('--tier', default=os.environ.get('VERIF_TIER', 'quick'))
    ap.add_argument('--replay')
    a = ap.parse_args(argv)
    seed = int(os.environ.get('VERIF_SEED', '0') or 0)
    if a.replay:
        return run_replay(a.pid, a.replay)
    return run_check(a.pid, a.tier if a.tier in ('quick', 'thorough') else 'quick', seed)
