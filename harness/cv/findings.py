"""Known findings: /verif/known_findings.json is committed and never written at run time."""
import json, os
from . import paths


def load():
    p = os.path.join(paths.VERIF, 'known_findings.json')
    if not os.path.exists(p):
        return []
    return json.load(open(p))['findings']


def split(pid, violations):
    """-> (known [(violation, entry)], fresh [violation]); only entries with status 'known' suppress."""
    entries = [e for e in load() if e['property'] == pid and e['status'] == 'known']
    known, fresh = [], []
    for v in violations:
        hit = None
        for e in entries:
            if v.kind == e['match']['kind'] and all(
                    (v.replay or {}).get('signature', {}).get(k) == val for k, val in e['match'].get('signature', {}).items()):
                hit = e
                break
        if hit is not None:
            known.append((v, hit))
        else:
            fresh.append(v)
    return known, fresh


def replayed_known(pid, mod):
    """For each known entry with a recorded witness, replay it against the real code; report it while it fails."""
    out = []
    for e in load():
        if e['property'] != pid or e['status'] != 'known' or 'witness' not in e:
            continue
        fn = getattr(mod, 'witness_' + e['witness'], None)
        if fn is None:
            continue
        try:
            still = fn()
        except Exception as ex:  # the witness itself broke: say so, do not hide it
            out.append(f'{e["text"]} (witness could not be replayed: {type(ex).__name__})')
            continue
        if still:
            out.append(e['text'])
    return out
