"""S-CRASH (C12): the writer runs in a child process that dies (os._exit) right before its i-th file-system mutation,
or in the middle of its i-th file write, for every i of one cache write; afterwards, and after losing / truncating
index, temporary and blob files of complete writes, fresh processes on the same storage must return correct values,
recompute what is absent and store it again."""
import io, json, multiprocessing as mp, os, random, shutil, sys, tempfile
from . import paths

MUTATIONS = {'os.mkdir', 'os.rename', 'os.remove', 'os.chmod', 'os.chown', 'os.rmdir', 'os.link', 'os.symlink', 'os.truncate'}


def describe(kind, value_kind):
    src = {'k': 'source', 'cls': 'KS', 'ids': ['a', 'b', 'c'], 'fields': {'x': {'args': ['i']}}, 'params': {}, 'cargs': {}, 'defaults': {}}
    if value_kind == 'json':
        # a JSON-serialisable value: a table function returning lists of ints/strings
        # the values are Python LISTS (what json gives back), so a computed and a stored value are the same value
        lst = lambda *xs: {'app': ['$list', list(xs), [], []]}
        src['fields']['x']['table'] = [[[i], lst(1, 'v' + i, lst(2, 3))] for i in ['a', 'b', 'c']]
    labels = '+labels' in kind
    use = '+uselabels' in kind          # labels are passed to CacheToDisk.simple (the storage is the one `.simple` creates)
    kind = kind.split('+')[0]
    cache = {'k': kind, 'names': ['x'], 'root': 0, 'json_labels': labels}
    if use:
        cache['labels'] = ['cv-label']
    if kind == 'columns':
        cache['shard'] = 2
    return {'k': 'chain', 'flavour': 'chain', 'layers': [src, cache]}


def _child(conn, root, kind, value_kind, keys, crash_at, half):
    """build the pipeline on `root`, evaluate x(key) for the keys; die at mutation number `crash_at` (1-based)"""
    try:
        counter = {'n': 0, 'events': []}
        rootp = os.path.realpath(root)

        def under(p):
            try:
                return os.path.realpath(os.fspath(p)).startswith(rootp)
            except Exception:
                return False

        def tick(label):
            counter['n'] += 1
            counter['events'].append(label)
            if counter['n'] == crash_at and not half:
                os._exit(9)

        def hook(event, args):
            if event in MUTATIONS and args and any(under(a) for a in args[:2] if isinstance(a, (str, bytes, os.PathLike))):
                tick(event)
        from .pipeline import Builder
        from .sym import SymWorld
        from .codec import canon, val_to_json
        world = SymWorld()
        b = Builder(world, roots=[root])
        layer = b.layer(describe(kind, value_kind))      # creating the storage folders is not part of a cache write
        fn = layer._compile('x')
        # from here on every mutation under the root counts
        sys.addaudithook(hook)
        real_open = io.open

        class W:
            def __init__(self, f):
                self._f = f

            def write(self, data):
                counter['n'] += 1
                counter['events'].append('write')
                if counter['n'] == crash_at:
                    if half:
                        self._f.write(data[:max(1, len(data) // 2)])
                        self._f.flush()
                    os._exit(9)
                return self._f.write(data)

            def __enter__(self):
                return self

            def __exit__(self, *a):
                return self._f.__exit__(*a)

            def __getattr__(self, k):
                return getattr(self._f, k)

        def my_open(file, mode='r', *a, **kw):
            f = real_open(file, mode, *a, **kw)
            if any(c in mode for c in 'wax+') and isinstance(file, (str, bytes, os.PathLike)) and under(file):
                tick('open:' + mode)
                return W(f)
            return f
        import builtins
        builtins.open = my_open
        io.open = my_open
        out = []
        for key in keys:
            mark = world.mark()
            try:
                v = canon(val_to_json(fn(key), world))
            except Exception as e:
                v = 'ERR ' + type(e).__name__ + ': ' + str(e)[:150]
            out.append({'key': key, 'value': v, 'calls': len([c for c in world.since(mark) if c[0] == 'KS.x'])})
        conn.send({'results': out, 'mutations': counter['n'], 'events': counter['events']})
    except BaseException as e:
        try:
            conn.send({'error': type(e).__name__ + ': ' + str(e)[:200]})
        except Exception:
            pass
    finally:
        os._exit(0)


class _PipeConn:
    def __init__(self, fd):
        self.fd = fd

    def send(self, obj):
        data = json.dumps(obj).encode()
        os.write(self.fd, len(data).to_bytes(8, 'big') + data)


CHILD_TIMEOUT = 30      # a healthy child takes well under a second


def run_child(root, kind, value_kind, keys, crash_at=-1, half=False):
    """a forked child with fresh pipeline objects (plain os.fork: callable from pool workers)"""
    r, w = os.pipe()
    pid = os.fork()
    if pid == 0:
        os.close(r)
        _child(_PipeConn(w), root, kind, value_kind, keys, crash_at, half)
        os._exit(0)
    os.close(w)
    chunks = []
    import select, signal, time
    deadline = time.monotonic() + CHILD_TIMEOUT
    hung = False
    while True:
        left = deadline - time.monotonic()
        ready = select.select([r], [], [], max(0.0, left))[0] if left > 0 else []
        if not ready:
            # a process that never answers: the storage is unusable for it (e.g. it waits for something a dead writer left behind)
            hung = True
            try:
                os.kill(pid, signal.SIGKILL)
            except ProcessLookupError:
                pass
            break
        data = os.read(r, 1 << 16)
        if not data:
            break
        chunks.append(data)
    os.close(r)
    _, status = os.waitpid(pid, 0)
    code = os.waitstatus_to_exitcode(status)
    if hung:
        return 'timeout', {'error': f'the process did not finish within {CHILD_TIMEOUT} s (it hangs)'}
    raw = b''.join(chunks)
    res = None
    if len(raw) >= 8:
        n = int.from_bytes(raw[:8], 'big')
        try:
            res = json.loads(raw[8:8 + n].decode())
        except Exception:
            res = None
    return code, res


def expected(value_kind, key):
    from .codec import canon, val_to_json
    if value_kind == 'json':
        return canon(val_to_json([1, 'v' + key, [2, 3]]))        # Python lists (the codec keeps lists and tuples apart)
    return canon({'app': ['KS.x', [key], [], []]})


def check_later_runs(root, kind, value_kind, keys, what):
    """two later processes on the storage: correct values; whatever the first one had to recompute is stored again"""
    problems = []
    code, r1 = run_child(root, kind, value_kind, keys)
    code, r2 = run_child(root, kind, value_kind, keys)
    for name, r in (('first', r1), ('second', r2)):
        if r is None or 'error' in r:
            problems.append(f'{what}: the {name} later process failed: {r}')
            return problems
        for rec in r['results']:
            if rec['value'] != expected(value_kind, rec['key']):
                problems.append(f'{what}: the {name} later process got {rec["value"][:160]} for key {rec["key"]!r}')
    if not problems:
        again = [rec['key'] for rec in r2['results'] if rec['calls']]
        if again:
            problems.append(f'{what}: the second later process recomputed {again}: the entry was not stored again')
    return problems


def crash_job(args):
    kind, value_kind, key, i, half, scratch = args
    root = tempfile.mkdtemp(dir=scratch)
    try:
        # an older complete entry of another key shares the storage
        run_child(root, kind, value_kind, ['c'])
        code, res = run_child(root, kind, value_kind, [key], crash_at=i, half=half)
        what = f'{kind}/{value_kind}: crash {"in the middle of" if half else "before"} fs mutation #{i} of the write for {key!r}'
        if code != 9:
            return what, [], False       # the write has fewer mutations than i
        return what, check_later_runs(root, kind, value_kind, [key, 'c'], what), True
    finally:
        shutil.rmtree(root, ignore_errors=True)


def files_under(root):
    out = []
    for d, _, fs in os.walk(root):
        for f in fs:
            p = os.path.join(d, f)
            if not f.endswith('config.yml'):
                out.append(p)
    return sorted(out)


def loss_job(args):
    kind, value_kind, seed, scratch = args
    rng = random.Random(seed)
    root = tempfile.mkdtemp(dir=scratch)
    try:
        run_child(root, kind, value_kind, ['a', 'b'])
        files = files_under(root)
        index = [f for f in files if os.sep + 'index' + os.sep in f]
        blobs = [f for f in files if os.sep + 'storage' + os.sep in f]
        lost = []
        for f in index:
            r = rng.random()
            if r < 0.35:
                os.remove(f)
                lost.append(('removed-index', os.path.relpath(f, root)))
            elif r < 0.6:
                size = os.path.getsize(f)
                with open(f, 'r+b') as fh:
                    fh.truncate(rng.randrange(0, max(1, size)))
                lost.append(('truncated-index', os.path.relpath(f, root)))
        for f in blobs:
            if rng.random() < 0.4:
                os.remove(f)
                lost.append(('removed-blob', os.path.relpath(f, root)))
        what = f'{kind}/{value_kind}: after complete writes, lost {lost}'
        return what, check_later_runs(root, kind, value_kind, ['a', 'b'], what), True
    finally:
        shutil.rmtree(root, ignore_errors=True)


def count_mutations(kind, value_kind, scratch):
    root = tempfile.mkdtemp(dir=scratch)
    try:
        run_child(root, kind, value_kind, ['c'])
        code, res = run_child(root, kind, value_kind, ['a'])
        return (res or {}).get('mutations', 0), (res or {}).get('events', [])
    finally:
        shutil.rmtree(root, ignore_errors=True)


def run_index_levels(seed=0):
    """several index folders (`CacheToDisk(index=[local, shared], ...)`): an entry written by a process that knows only the shared folder,
    read by one that lists both, then its blob (or its index file) is lost: the entry counts as absent - it is recomputed ONCE, stored
    again, and every later process reads it from the cache (C12 recovery), in either order of the folders"""
    import itertools
    from pathlib import Path
    paths.use_repo()
    from tarn import DiskDict, HashKeyStorage
    from tarn.config import StorageConfig, init_storage
    from connectome import CacheToDisk, Transform
    from connectome.serializers import JsonSerializer
    from .sym import SymWorld
    os.makedirs(paths.SCRATCH, exist_ok=True)
    problems, runs = [], 0
    for order, lose, writer in itertools.product(['local-first', 'shared-first'], ['blob', 'index-shared', 'index-all'], ['shared', 'both']):
        tmp = Path(tempfile.mkdtemp(prefix='cv-levels-', dir=paths.SCRATCH))
        try:
            local, shared, storage = tmp / 'index-local', tmp / 'index-shared', tmp / 'storage'
            for folder in (local, shared, storage):
                init_storage(StorageConfig(hash='sha256', levels=[1, 31]), folder)
            world = SymWorld()
            world.consts['IL.x'] = [3, 30, 'payload']
            fn = world.fn('IL.x', params=['x'])
            both = [local, shared] if order == 'local-first' else [shared, local]

            def run(index):
                cache = CacheToDisk(index, HashKeyStorage(DiskDict(storage)), JsonSerializer(), 'x')
                mark = world.mark()
                v = (Transform(x=fn) >> cache).x(3)
                return v, len(world.since(mark))

            def blobs():
                return [f for f in storage.glob('*/*') if f.is_file() and f.parent.name not in ('tools', '.tmp')]
            label = f'index folders {order}, written through {writer}, lost: {lose}'
            v, n = run(shared if writer == 'shared' else both)
            v2, n2 = run(both)
            runs += 2
            if n != 1 or n2 != 0 or list(v2) != [3, 30, 'payload']:
                problems.append({'msg': f'{label}: the entry written by the first process was not served to the second ({n}, {n2} computations)'})
                continue
            victims = blobs() if lose == "blob" else \
                [f for d_ in ([shared] if lose == 'index-shared' else [shared, local]) for f in d_.glob('*/*') if f.is_file() and f.parent.name not in ('tools', '.tmp')]
            for f in victims:
                os.chmod(f, 0o777)
                f.unlink()
            hist = []
            for _ in range(4):
                try:
                    v3, n3 = run(both)
                except Exception as e:
                    problems.append({'msg': f'{label}: a later process raised {type(e).__name__}: {str(e)[:100]}'})
                    hist = None
                    break
                runs += 1
                if list(v3) != [3, 30, 'payload']:
                    problems.append({'msg': f'{label}: a later process returned {v3!r}'})
                hist.append(n3)
            if hist is None:
                continue
            if sum(hist) > 1 or (hist and hist[0] > 1):
                problems.append({'msg': f'{label}: computations in the four processes after the loss: {hist} - the entry must be recomputed at most once, '
                                        f'stored again and then read from the cache ({len(blobs())} blob(s) in the storage)'})
        finally:
            shutil.rmtree(tmp, ignore_errors=True)
    return runs, problems


def run_concurrent_open(seed=0):
    """a writer in the middle of storing a value (its blob is being copied into the storage) while another user of the same root starts up
    (`CacheToDisk.simple(root=...)`), reads another key, or asks for the same key: the writer's call returns its value, the entry is fully
    visible afterwards, nothing is recomputed later (C12: concurrent writers and readers never see or cause a partial entry)"""
    import io, threading
    paths.use_repo()
    from connectome import CacheToDisk, Transform
    from connectome.serializers import JsonSerializer
    from .sym import SymWorld
    os.makedirs(paths.SCRATCH, exist_ok=True)
    problems, runs = [], 0
    for action in ('open', 'open-and-read-other', 'read-same'):
        tmp = tempfile.mkdtemp(prefix='cv-copen-', dir=paths.SCRATCH)
        try:
            root = os.path.join(tmp, 'cache')
            world = SymWorld()
            world.tables['CO.x'] = {(0,): [0, 0], (7,): [7, 70], (8,): [8, 80]}
            fn = world.fn('CO.x', params=['x'])
            in_copy, resume = threading.Event(), threading.Event()
            gate = [True]

            class SlowStream(io.BytesIO):
                def __init__(self, data):
                    super().__init__(data)
                    self.rewound = False

                def seek(self, *a, **k):
                    self.rewound = True
                    return super().seek(*a, **k)

                def read(self, *a, **k):
                    if self.rewound and gate[0]:        # the second pass over the data is the copy into the storage
                        gate[0] = False
                        in_copy.set()
                        resume.wait(20)
                    return super().read(*a, **k)

            class SlowJson(JsonSerializer):
                def save(self, value, write):
                    yield 'value.json', write(SlowStream(json.dumps(value, sort_keys=True).encode()))

            def pipeline(serializer=None):
                return Transform(x=fn) >> CacheToDisk.simple('x', root=root, serializer=serializer)
            pipeline().x(0)           # the storage exists beforehand
            outcome = {}

            def writer():
                try:
                    outcome['value'] = pipeline(SlowJson()).x(7)
                except BaseException as e:
                    outcome['error'] = type(e).__name__ + ': ' + str(e)[:100]
            th = threading.Thread(target=writer, daemon=True)
            th.start()
            if not in_copy.wait(20):
                resume.set()
                th.join(5)
                continue              # the write path has no second pass any more: this scenario cannot hold the writer
            try:
                other = pipeline()
                if action == 'open-and-read-other':
                    other.x(8)
                elif action == 'read-same':
                    other.x(7)
            except Exception as e:
                problems.append({'msg': f'while a writer was storing x(7), another user of the root ({action}) raised {type(e).__name__}: {str(e)[:100]}'})
            resume.set()
            th.join(20)
            runs += 1
            if 'error' in outcome or list(outcome.get('value', [])) != [7, 70]:
                problems.append({'msg': f'a writer computed x(7) and was storing it while another user of the same root did "{action}": the call of the writer '
                                        f'ended with {outcome.get("error", outcome.get("value"))!r} instead of returning the value'})
                continue
            mark = world.mark()
            v = pipeline().x(7)
            if list(v) != [7, 70] or world.since(mark):
                problems.append({'msg': f'after a write that overlapped with "{action}" on the same root the entry is not served from the cache '
                                        f'(returned {v!r}, {len(world.since(mark))} computations)'})
        finally:
            shutil.rmtree(tmp, ignore_errors=True)
    return runs, problems


def run_columns_kills(seed=0):
    """the generation of a big shard of CacheColumns (700 entries; one shard, or shards of 300) is killed at several entries in a row, each time in a
    new process (a real death inside the user function); the processes after that read exactly the values of the pipeline without caches (C12: a
    crash at any point, any number of times, leaves nothing a later process can take for an entry)"""
    import subprocess
    paths.use_repo()
    os.makedirs(paths.SCRATCH, exist_ok=True)
    rng = random.Random(seed)
    problems, runs = [], 0
    child = os.path.join(os.path.dirname(os.path.abspath(__file__)), 'colkill_child.py')
    n = 700
    for kills, shard in [((300, 600), None), ((rng.randrange(10, 690), rng.randrange(10, 690), rng.randrange(10, 690)), rng.choice([None, 300]))]:
        root = tempfile.mkdtemp(prefix='cv-colkill-', dir=paths.SCRATCH)
        try:
            def run(die_at=None):
                env = dict(os.environ)
                env.pop('CV_DIE_AT', None)
                if die_at is not None:
                    env['CV_DIE_AT'] = str(die_at)
                return subprocess.run([sys.executable, child, root, str(n), str(shard)], env=env, capture_output=True, text=True, timeout=120)
            for k in kills:
                r = run(k)
                runs += 1
                if r.returncode not in (17, 0):
                    problems.append({'msg': f'a process generating the column cache (to be killed at entry {k}) ended with {r.returncode}: {r.stderr[-200:]}'})
            for name in ('first', 'second'):
                r = run()
                runs += 1
                if r.returncode != 0:
                    problems.append({'msg': f'after kills at the entries {kills} (shard_size={shard}) the {name} undisturbed process failed: {r.stderr[-200:]}'})
                    break
                line = [x for x in r.stdout.splitlines() if x.startswith('VALUES ')]
                values = json.loads(line[0][7:]) if line else []
                wrong = [i for i in range(n) if i >= len(values) or values[i] != 3 * i + 1]
                if wrong:
                    problems.append({'msg': f'after kills at the entries {kills} (shard_size={shard}) the {name} undisturbed process read {len(wrong)} wrong values, '
                                            f'e.g. x({wrong[0]}) = {values[wrong[0]] if wrong[0] < len(values) else None} instead of {3 * wrong[0] + 1}'})
                    break
        except Exception as e:
            problems.append({'msg': 'columns kills scenario raised ' + type(e).__name__ + ': ' + str(e)[:150]})
        finally:
            shutil.rmtree(root, ignore_errors=True)
    return runs, problems
