import os, sys
VERIF = os.path.abspath(os.path.join(os.path.dirname(__file__), '..', '..'))
REPO = os.environ.get('CV_REPO', '/repo')
LEAN = os.path.join(VERIF, 'lean')
DRIVER = os.path.join(LEAN, '.lake', 'build', 'bin', 'cmdriver')
EVIDENCE = os.path.join(VERIF, 'evidence')
REPLAYS = os.path.join(VERIF, 'replays')
CORPUS = os.path.join(VERIF, 'corpus')
SCRATCH = os.path.join(VERIF, '.cache')


def use_repo():
    """Put /repo's working tree first on sys.path and make sure `connectome` resolves there."""
    if sys.path[0] != REPO:
        sys.path.insert(0, REPO)
    import connectome
    here = os.path.realpath(os.path.dirname(connectome.__file__))
    want = os.path.realpath(os.path.join(REPO, 'connectome'))
    if here != want:
        raise RuntimeError(f'connectome resolves to {here}, not to {want}')
    return connectome
