"""S-ALIAS: bracketings and chain flavours of one layer sequence built from *shared layer objects*, re-observed
after every composition (C09; the hash part also serves C07)."""
import json, random
from . import refsem
from .pipeline import Builder, observe, _to_py as b_to_py
from .codec import canon, exc_name
from .gen_pipe import gen_stack, POOL
from .suite_bag import NAMES, compare_model, model_request, decoys


def callable_kind(d):
    return d['k'] in ('source', 'transform', 'apply', 'merge', 'join')


def rand_tree(rng, lo, hi, flat, top=True):
    """a bracketing of the layers lo..hi-1: ('leaf', i) | (flavour, [children])"""
    n = hi - lo
    if n == 1 and not top:
        return ('leaf', lo)
    # split into 1..n groups
    cuts = sorted(rng.sample(range(lo + 1, hi), rng.randint(0, min(n - 1, 3)))) if n > 1 else []
    bounds = [lo] + cuts + [hi]
    children = []
    for a, b in zip(bounds, bounds[1:]):
        if b - a == 1:
            children.append(('leaf', a))
        else:
            children.append(rand_tree(rng, a, b, flat, top=False))
    head_callable = callable_kind(flat[lo])
    if top or (head_callable and rng.random() < 0.7):
        fl = rng.choice(['chain', 'rshift'])
    else:
        fl = 'lazy'
    return (fl, children)


def valid_tree(t, flat, top=True):
    """a Chain / >> needs a callable head (a LazyChain or a cache layer is not one)"""
    if t[0] == 'leaf':
        return True
    fl, ch = t
    if not all(valid_tree(c, flat, False) for c in ch):
        return False
    if fl in ('chain', 'rshift'):
        h = ch[0]
        if h[0] == 'leaf':
            if not callable_kind(flat[h[1]]):
                return False
        elif h[0] == 'lazy':
            return False
        if fl == 'rshift':
            # a >> b needs every left operand to be callable: only the head matters (the result is a Chain)
            pass
    return True


def has_lazy(t):
    return t[0] != 'leaf' and (t[0] == 'lazy' or any(has_lazy(c) for c in t[1]))


def compose(c, t, objs):
    if t[0] == 'leaf':
        return objs[t[1]]
    fl, ch = t
    parts = [compose(c, x, objs) for x in ch]
    if fl == 'lazy':
        return c.LazyChain(*parts)
    if fl == 'rshift':
        out = parts[0]
        if len(parts) == 1:
            return c.Chain(out)
        for x in parts[1:]:
            out = out >> x
        return out
    return c.Chain(*parts)


def tree_desc(t, flat):
    if t[0] == 'leaf':
        return flat[t[1]]
    return {'k': 'chain', 'flavour': t[0], 'layers': [tree_desc(c, flat) for c in t[1]]}


def slim(obs, attrs=True):
    """the observables that must not depend on bracketing (`attrs`: how attribute access behaves, which is
    compared only between observations of the *same object* at different times: a LazyChain does not forward
    the meta names of its members to the enclosing Chain, which C09 does not constrain)"""
    if 'dir_err' in obs:
        return {'dir_err': obs['dir_err']}
    out = {'dir': obs['dir'], 'fields': {}}
    if attrs:
        out['attrs'] = obs.get('attrs')
    for k, v in obs['fields'].items():
        out['fields'][k] = {kk: vv for kk, vv in v.items() if kk in ('sig', 'value', 'value_err', 'err', 'identity', 'hash', 'hash_err')}
    return out


def run_case(seed, max_layers=5):
    rng = random.Random(seed)
    stack = gen_stack(rng, max_layers=max_layers, source=True if rng.random() < 0.7 else None)
    flat = refsem.flatten(stack)
    b = Builder()
    decoys(b, flat)
    rec = {'stack': stack, 'variants': [], 'problems': []}
    try:
        objs = [b.layer(d) for d in flat]
    except Exception as e:
        rec['construct_err'] = exc_name(e)
        return rec
    # operands observed before anything is composed
    before = {}
    for i, (d, o) in enumerate(zip(flat, objs)):
        if callable_kind(d):
            try:
                before[i] = canon(slim(observe(b, o, NAMES, hashes=True)))
            except Exception as e:
                before[i] = 'ERR ' + exc_name(e)
    trees = [('chain', [('leaf', i) for i in range(len(flat))]), ('rshift', [('leaf', i) for i in range(len(flat))])]
    for _ in range(3):
        t = rand_tree(rng, 0, len(flat), flat)
        if valid_tree(t, flat):
            trees.append(t)
    if not callable_kind(flat[0]):
        return rec
    base = None
    built = []
    for t in trees:
        try:
            p = compose(b.c, t, objs)
        except Exception as e:
            rec['variants'].append({'tree': t, 'construct_err': exc_name(e)})
            # only the flat forms define the error class of the complete pipeline (DESIGN 7.1)
            if t is trees[0]:
                base = {'construct_err': exc_name(e)}
            continue
        full = observe(b, p, NAMES, hashes=True)
        o = slim(full, attrs=False)
        # attribute access (a meta field is a value, any other field a function) is compared among the bracketings WITHOUT a
        # LazyChain (a LazyChain does not forward the properties of its members, see DESIGN 6)
        if not has_lazy(t):
            at = canon(full.get('attrs'))
            if 'attrs0' not in rec:
                rec['attrs0'] = at
            elif at != rec['attrs0'] and 'dir_err' not in full:
                rec['problems'].append({'kind': 'bracketing', 'tree': t, 'msg': f'attribute access differs from the flat Chain: {at[:150]} vs {rec["attrs0"][:150]}'})
        built.append((t, p, canon(slim(full))))
        rec['variants'].append({'tree': t})
        rec.setdefault('trees', []).append(tree_desc(t, flat))
        if base is None:
            base = o
            rec['base'] = o
        elif 'construct_err' in base:
            rec['problems'].append({'kind': 'bracketing', 'tree': t, 'msg': f'flat Chain raises {base["construct_err"]} but this bracketing constructs'})
        elif canon(o) != canon(base):
            rec['problems'].append({'kind': 'bracketing', 'tree': t, 'msg': diff_text(base, o)})
    # the chains the helpers of Chain return are chains of the same layers: a slice continued by the remaining layers, a full slice,
    # and a pipeline class made with `chained(...)` (also sliced): the same pipeline as Chain(*layers)
    if base is not None and 'construct_err' not in base and len(flat) >= 2:
        from connectome.layers.base import chained
        k = rng.randint(1, len(flat) - 1)
        def augmented():
            # `p >>= layer` builds a new pipeline and leaves every other holder of `p` alone
            p0 = b.c.Chain(*objs[:k]) if k > 1 else objs[0]
            held = p0
            before_ = canon(slim(observe(b, held, NAMES, hashes=True), attrs=False)) if callable_kind(flat[0]) else None
            p0 >>= objs[k]
            for x in objs[k + 1:]:
                p0 >>= x
            after_ = canon(slim(observe(b, held, NAMES, hashes=True), attrs=False)) if before_ is not None else None
            if before_ != after_:
                raise AssertionError('`p >>= layer` changed the pipeline another variable still refers to')
            return p0
        derived = [('p >>= layer', augmented), ('slice [:]', lambda: b.c.Chain(*objs)[:]),
                   ('slice [:k] >> rest', lambda: b.c.Chain(*(list(b.c.Chain(*objs)[:k]._layers) + objs[k:]))),
                   ('slice [:k][:] + rest', lambda: b.c.Chain(b.c.Chain(*objs)[:k][:], *objs[k:]))]
        if flat[0]['k'] in ('source', 'transform'):
            cls0 = b.make_class(flat[0])
            cargs0 = {a: b_to_py(v) for a, v in flat[0].get('cargs', {}).items()}
            derived += [('chained', lambda: chained(*objs[1:])(cls0)(**cargs0)),
                        ('chained [:]', lambda: chained(*objs[1:])(cls0)(**cargs0)[:]),
                        ('chained [:k] + rest', lambda: b.c.Chain(*(list(chained(*objs[1:])(cls0)(**cargs0)[:k]._layers) + objs[k:])))]
        for what, make in derived:
            try:
                o2 = slim(observe(b, make(), NAMES, hashes=True), attrs=False)
            except Exception as e:
                rec['problems'].append({'kind': 'bracketing', 'tree': what, 'msg': f'{what} of the flat Chain raises {exc_name(e)}; Chain(*layers) constructs'})
                continue
            rec['variants'].append({'tree': what})
            if canon(o2) != canon(base):
                rec['problems'].append({'kind': 'bracketing', 'tree': what, 'msg': f'{what}: ' + diff_text(base, o2)})
    # a layer object used twice in one pipeline behaves as an independent copy
    if len(flat) >= 2 and callable_kind(flat[0]):
        idx = [i for i, d in enumerate(flat) if d['k'] in ('transform', 'apply')]
        if idx:
            i = rng.choice(idx)
            outcome = []
            for make in (lambda: b.c.Chain(*(objs + [objs[i]])), lambda: b.c.Chain(*(objs + [b.layer(flat[i])]))):
                try:
                    outcome.append(canon(slim(observe(b, make(), NAMES, hashes=True))))
                except Exception as e:
                    outcome.append('ERR ' + exc_name(e))
            rec['twice'] = True
            if outcome[0] != outcome[1]:
                rec['problems'].append({'kind': 'reuse', 'msg': f'layer object {i} used twice differs from a fresh copy at the second position'
                                        + (f' ({outcome[0][:60]} vs {outcome[1][:60]})' if 'ERR' in outcome[0] + outcome[1] else '')})
    # nothing composed so far changed its operands or the earlier pipelines
    for i, (d, o) in enumerate(zip(flat, objs)):
        if i in before:
            try:
                now = canon(slim(observe(b, o, NAMES, hashes=True)))
            except Exception as e:
                now = 'ERR ' + exc_name(e)
            if now != before[i]:
                rec['problems'].append({'kind': 'mutation', 'msg': f'operand {i} ({d.get("cls", d["k"])}) observes differently after being composed'})
    for t, p, c0 in built:
        if canon(slim(observe(b, p, NAMES, hashes=True))) != c0:
            rec['problems'].append({'kind': 'mutation', 'tree': t, 'msg': 'a pipeline observes differently after later compositions'})
    return rec


def diff_text(a, b):
    if 'dir_err' in a or 'dir_err' in b:
        return f'dir: {a.get("dir", a.get("dir_err"))} vs {b.get("dir", b.get("dir_err"))}'
    if a['dir'] != b['dir']:
        return f'dir differs: {a["dir"]} vs {b["dir"]}'
    for k in a['fields']:
        if canon(a['fields'][k]) != canon(b['fields'].get(k)):
            x, y = a['fields'][k], b['fields'].get(k) or {}
            for kk in ('err', 'sig', 'identity', 'value', 'value_err', 'hash', 'hash_err'):
                if canon(x.get(kk)) != canon(y.get(kk)):
                    return f'field {k}: {kk} differs: {canon(x.get(kk))[:200]} vs {canon(y.get(kk))[:200]}'
    return 'differs'


def run_shard(args):
    seed, n = args
    from . import driver
    recs = [run_case(seed * 7919 + i) for i in range(n)]
    reqs = []
    for r in recs:
        trees = r.get('trees') or [r['stack']]
        reqs.append({'op': 'stack', 'tree': trees[-1], 'names': NAMES})     # the most nested variant built
    answers = driver.run_lines(reqs)
    stats = {'cases': 0, 'variants': 0, 'with_nested': 0, 'twice': 0, 'construct_err': 0}
    problems, model_bad = [], []
    distinct = set()
    for r, ans in zip(recs, answers):
        stats['cases'] += 1
        stats['variants'] += len(r['variants'])
        stats['twice'] += 1 if r.get('twice') else 0
        if 'construct_err' in r:
            stats['construct_err'] += 1
        if len(r['variants']) >= 3:
            stats['with_nested'] += 1
            distinct.add(json.dumps(r['stack'], sort_keys=True))
        for p in r['problems']:
            problems.append({'stack': r['stack'], **p})
        if 'base' in r:
            md = compare_model(r['base'], ans)
            if md:
                model_bad.append({'stack': r['stack'], 'diffs': json.loads(json.dumps(md[:3], default=str))})
    stats['distinct_nontrivial'] = len(distinct)
    stats['shared_dynamic'] = {}
    for i in range(max(2, n // 4)):
        kind, pr = run_shared_dynamic(seed * 104729 + i)
        stats['shared_dynamic'][kind] = stats['shared_dynamic'].get(kind, 0) + 1
        for p in pr:
            problems.append({'stack': p.get('source'), **p})
    stats['inverse_sharing'] = 0
    for i in range(max(2, n // 8)):
        stats['inverse_sharing'] += 1
        for p in run_inverse_sharing(seed * 31337 + i):
            problems.append({'stack': p.get('layer'), **p})
    for i in range(max(2, n // 5)):
        for p in run_meta_redefined(seed * 613 + i):
            problems.append({'stack': p.get('source'), **p})
    stats['error_class'] = {}
    for i in range(max(3, n // 4)):
        kind, pr = run_error_class(seed * 271 + i)
        stats['error_class'][kind] = stats['error_class'].get(kind, 0) + 1
        for p in pr:
            problems.append({'stack': p.get('source'), **p})
    sample = next(({'stack': r['stack'], 'variants': r['variants']} for r in recs if len(r['variants']) >= 4), None)
    return stats, problems, model_bad, sample


# ---------------------------------------------------------------- shared layer objects over different datasets

def run_shared_dynamic(seed):
    """one layer object (Filter, keep, GroupBy, CacheToRam, Transform) composed with two *different* sources that expose the
    same field names: at each position it must behave as an independent copy (compared with fresh copies), in either order"""
    from . import rel
    rng = random.Random(seed)
    world_seed = rng.randrange(10 ** 6)
    problems = []
    kinds = ['filter', 'keep', 'groupby', 'ram', 'transform']
    kind = rng.choice(kinds)

    def sources():
        a = rel.gen_source(rng, 0, rng.sample(rel.UNIVERSE, 3), ['x'])
        b_ = rel.gen_source(rng, 1, rng.sample(rel.UNIVERSE, 4), ['x'])
        for s in (a, b_):
            s['fields']['k1'] = {'args': ['i'], 'table': [[[i], rng.choice(rel.KEYS)] for i in rel.UNIVERSE + rel.FOREIGN]}
            s['fields'].pop('k2', None)
        return a, b_
    a, b_ = sources()
    # one of the two datasets may compute the field with an @impure function: whether the shared layer accepts a dataset must
    # not depend on what it was composed with before
    if rng.random() < 0.35:
        rng.choice([a, b_])['fields'][rng.choice(['x', 'k1'])]['impure'] = True
    if kind == 'filter':
        p = {'k': 'filter', 'f': 'shpred', 'args': ['k1'], 'table': [[['u'], True], [['v'], False], [['w'], True]]}
    elif kind == 'keep':
        p = {'k': 'keep', 'ids': rng.sample(rel.UNIVERSE, 4)}
    elif kind == 'groupby':
        p = {'k': 'groupby', 'by': 'k1'}
    elif kind == 'ram':
        p = {'k': 'ram', 'names': None, 'size': None}
    else:
        p = {'k': 'transform', 'cls': 'ShT', 'fields': {'y': {'args': ['x']}}, 'params': {}, 'cargs': {}, 'defaults': {}, 'inherit': True}
    from .pipeline import Builder
    from .sym import SymWorld
    from .codec import canon
    world = SymWorld()
    b = Builder(world)
    shared = b.layer(p)
    order = [a, b_] if rng.random() < 0.5 else [b_, a]
    fields = ['x', 'k1', 'y', 'id']
    q = rel.UNIVERSE + rel.FOREIGN + rel.KEYS
    for src in order:
        try:
            built = []
            for make in (lambda: b.layer(src) >> shared, lambda: b.layer(src) >> b.layer(p)):
                try:
                    built.append((make(), None))
                except Exception as e:
                    built.append((None, exc_name(e)))
            if built[0][1] != built[1][1]:
                problems.append({'kind': 'reuse', 'layer': p, 'source': src,
                                 'msg': f'a {kind} layer object shared between pipelines: composing it raises {built[0][1]}, a fresh copy at the '
                                        f'same position raises {built[1][1]}'})
                continue
            if built[0][1]:
                continue
            with_shared, with_fresh = built[0][0], built[1][0]
            o1 = rel.observe_rel(b, with_shared, fields, q)
            o2 = rel.observe_rel(b, with_fresh, fields, q)
            for key in ('ids', 'ids_err', 'dir', 'values'):
                if canon(o1.get(key)) != canon(o2.get(key)):
                    problems.append({'kind': 'reuse', 'layer': p, 'source': src,
                                     'msg': f'a {kind} layer object shared between pipelines over different datasets: {key} differs from a fresh copy '
                                            f'({canon(o1.get(key))[:120]} vs {canon(o2.get(key))[:120]})'})
                    break
            # hashes of ids as well
            try:
                # library-internal lambdas (Filter.keep, GroupBy) are fresh objects per layer: compared by code and closure
                from .codec import hash_to_json
                h1 = canon(hash_to_json(with_shared._compile('ids').get_hash()[0].value, world))
                h2 = canon(hash_to_json(with_fresh._compile('ids').get_hash()[0].value, world))
                if h1 != h2:
                    problems.append({'kind': 'reuse', 'layer': p, 'source': src, 'msg': f'a shared {kind} layer: the node hash of ids differs from a fresh copy'})
            except Exception:
                pass
        except Exception as e:
            problems.append({'kind': 'reuse', 'layer': p, 'msg': 'raised ' + exc_name(e) + ': ' + str(e)[:150]})
    return kind, problems


def run_inverse_sharing(seed):
    """ONE object of a Transform with @inverse fields (its container carries backward nodes and a BagContext) used at two
    positions of one container: twice in a chain, and in both branches of a Merge; every form must behave like the same
    form built from fresh copies (construction outcome, fields, values, hashes)"""
    from . import rel
    rng = random.Random(seed)
    problems = []
    b = Builder()
    params = {'_p': {'args': ['x']}} if rng.random() < 0.5 else {}
    inv = {'k': 'transform', 'cls': 'InvS', 'fields': {'x': {'args': ['x'] + (['_p'] if params else [])}},
           'inverses': {'x': {'args': ['x'] + (['_p'] if params and rng.random() < 0.5 else [])}}, 'params': params, 'cargs': {},
           'defaults': {}, 'inherit': rng.choice([True, None, ['y']])}
    if inv['inherit'] is None:
        del inv['inherit']
    srcs = [{'k': 'source', 'cls': f'IS{j}', 'ids': ids, 'fields': {'x': {'args': ['i'], 'f': f'IS{j}.x'}, 'y': {'args': ['i'], 'f': f'IS{j}.y'}},
             'params': {}, 'cargs': {}, 'defaults': {}} for j, ids in enumerate([['i1', 'i2'], ['i3']])]
    shared = b.layer(inv)
    forms = {
        'Chain(A, s, s)': lambda s1, s2: b.c.Chain(b.layer(srcs[0]), s1, s2),
        'A >> s >> s': lambda s1, s2: b.layer(srcs[0]) >> s1 >> s2,
        'Merge(A >> s, B >> s)': lambda s1, s2: b.c.Merge(b.layer(srcs[0]) >> s1, b.layer(srcs[1]) >> s2),
        'Merge(Chain(A, s), Chain(B, s))': lambda s1, s2: b.c.Merge(b.c.Chain(b.layer(srcs[0]), s1), b.c.Chain(b.layer(srcs[1]), s2)),
    }
    for name, make in forms.items():
        outcome = []
        for s1, s2 in ((shared, shared), (b.layer(inv), b.layer(inv))):
            try:
                p = make(s1, s2)
                o = rel.observe_rel(b, p, ['x', 'y'], ['i1', 'i2', 'i3'])
                outcome.append(canon({k: o.get(k) for k in ('ids', 'ids_err', 'dir', 'values')}))
            except Exception as e:
                outcome.append('ERR ' + exc_name(e))
        if outcome[0] != outcome[1]:
            problems.append({'kind': 'reuse', 'layer': inv, 'form': name,
                             'msg': f'one object of a Transform with inverse fields in {name}: {outcome[0][:100]}, with fresh copies: {outcome[1][:100]}'})
    return problems


# ---------------------------------------------------------------- the class of the error of ill-formed pipelines
def run_error_class(seed):
    """C09 'the same class of error': an ill-formed sequence of layers - a dataset-wide layer (Filter, GroupBy) whose function needs
    a field no earlier layer provides, or a Transform asking for such a field - composed in several bracketings and flavours
    (>>, Chain, nested Chain, LazyChain at several positions): the exception class met while constructing the pipeline or on the
    first access of `ids` / `dir` is the same in every bracketing."""
    rng = random.Random(seed)
    b = Builder()
    src = {'k': 'source', 'cls': 'ES', 'ids': ['i1', 'i2', 'i3'], 'params': {}, 'cargs': {}, 'defaults': {},
           'fields': {'x': {'args': ['i']}, 'kk': {'args': ['i'], 'f': 'ES.kk', 'table': [[['i1'], 'g'], [['i2'], 'h'], [['i3'], 'g']]}}}
    mid = {'k': 'transform', 'cls': 'EM', 'fields': {'y': {'args': ['x']}}, 'params': {}, 'cargs': {}, 'defaults': {},
           'inherit': rng.choice([True, ['kk'], ['x', 'kk']])}
    kind = rng.choice(['filter', 'groupby', 'transform', 'filter-ok'])
    missing = rng.choice(['nope', 'x' if mid['inherit'] == ['kk'] else 'zz'])
    if kind == 'filter':
        last = {'k': 'filter', 'f': 'epred', 'args': [missing]}
    elif kind == 'filter-ok':
        last = {'k': 'filter', 'f': 'epred', 'args': ['kk']}
        b.world.tables['epred'] = {('g',): True, ('h',): False}
    elif kind == 'groupby':
        last = {'k': 'groupby', 'by': missing}
    else:
        last = {'k': 'transform', 'cls': 'EL', 'fields': {'z': {'args': [missing]}}, 'params': {}, 'cargs': {}, 'defaults': {}}
    flat = [src, mid, last]
    try:
        objs = [b.layer(d) for d in flat]
    except Exception as e:
        return kind, [{'kind': 'error-class', 'msg': 'a layer could not be built: ' + exc_name(e)}]
    L = lambda i: ('leaf', i)
    trees = {'a >> b >> c': ('rshift', [L(0), L(1), L(2)]), 'Chain(a, b, c)': ('chain', [L(0), L(1), L(2)]),
             'Chain(Chain(a, b), c)': ('chain', [('chain', [L(0), L(1)]), L(2)]),
             'Chain(a, LazyChain(b, c))': ('chain', [L(0), ('lazy', [L(1), L(2)])]),
             'Chain(a, b, LazyChain(c))': ('chain', [L(0), L(1), ('lazy', [L(2)])]),
             'a >> LazyChain(b, LazyChain(c))': ('rshift', [L(0), ('lazy', [L(1), ('lazy', [L(2)])])]),
             'Chain(a, LazyChain(b), c)': ('chain', [L(0), ('lazy', [L(1)]), L(2)])}
    outcome = {}
    for name, t in trees.items():
        try:
            p = compose(b.c, t, objs)
            try:
                ids = p.ids
                outcome[name] = 'ids=' + repr(ids) + ' dir=' + repr(sorted(dir(p)))
            except Exception as e:
                outcome[name] = 'on access: ' + exc_name(e)
        except Exception as e:
            outcome[name] = 'on construction: ' + exc_name(e)
    # the class only: where it surfaces (construction / first access) is a property of LazyChain's laziness
    cls = {k: v.split(': ')[-1] if v.startswith('on ') else v for k, v in outcome.items()}
    base = cls['Chain(a, b, c)']
    problems = []
    for name, v in cls.items():
        if v != base:
            problems.append({'kind': 'error-class', 'source': flat, 'msg': f'{name} gives {outcome[name][:80]!r} but Chain(a, b, c) gives '
                                                                          f'{outcome["Chain(a, b, c)"][:80]!r} for the same sequence of layers'})
            break
    return kind, problems


def run_meta_redefined(seed):
    """C09: a property (@meta field of a Transform) that a later layer drops and a still later layer defines again as an ordinary
    field: whether `pipeline.name` is a value or a function must not depend on the bracketing (>>, Chain, nested Chain)"""
    rng = random.Random(seed)
    b = Builder()
    src = {'k': 'source', 'cls': 'MS', 'ids': ['i1', 'i2'], 'fields': {'x': {'args': ['i']}}, 'params': {}, 'cargs': {}, 'defaults': {}}
    meta = {'k': 'transform', 'cls': 'MM', 'fields': {'n': {'args': [], 'meta': True}}, 'params': {}, 'cargs': {}, 'defaults': {}, 'inherit': ['x']}
    drop = {'k': 'transform', 'cls': 'MD', 'fields': {'y': {'args': ['x']}}, 'params': {}, 'cargs': {}, 'defaults': {}, 'inherit': ['x']}
    again = {'k': 'transform', 'cls': 'MA', 'fields': {'n': {'args': ['x']}}, 'params': {}, 'cargs': {}, 'defaults': {},
             'inherit': rng.choice([['x'], ['x', 'y'], True])}
    flat = [src, meta, drop, again] if rng.random() < 0.7 else [src, meta, again]
    objs = [b.layer(d) for d in flat]
    n = len(flat)
    L = lambda i: ('leaf', i)
    trees = {'Chain(flat)': ('chain', [L(i) for i in range(n)]), '>>': ('rshift', [L(i) for i in range(n)]),
             '(a >> b) >> rest': ('rshift', [('rshift', [L(0), L(1)])] + [L(i) for i in range(2, n)]),
             'a >> (rest)': ('rshift', [L(0), ('chain', [L(i) for i in range(1, n)])]),
             'Chain(Chain(a, b), Chain(rest))': ('chain', [('chain', [L(0), L(1)]), ('chain', [L(i) for i in range(2, n)])])}
    if n == 4:
        trees['a >> (b >> c) >> d'] = ('rshift', [L(0), ('rshift', [L(1), L(2)]), L(3)])
    seen = {}
    for name, t in trees.items():
        try:
            p = compose(b.c, t, objs)
            a = getattr(p, 'n')
            seen[name] = 'function' if callable(a) and hasattr(a, '__signature__') else 'value'
        except Exception as e:
            seen[name] = 'ERR ' + exc_name(e)
    base = seen['Chain(flat)']
    bad = {k: v for k, v in seen.items() if v != base}
    if bad:
        return [{'kind': 'bracketing', 'source': flat, 'msg': f'`pipeline.n` (a property dropped and defined again as a field) is a {base} for Chain(flat) '
                                                               f'but {bad} for other bracketings of the same layers'}]
    return []
