"""Reference semantics of layer stacks (the direct oracle of C02 / C18 / C09 / C07), written from the property
texts: which fields a stack exposes, what each field computes, which raw inputs it needs, which names are served
as the raw input, and when the stack is unusable (DependencyError) or a field is quietly left out.

A stack is a list of layer descriptions (see pipeline.py).  Terms:
    ('in', name) | ('const', value) | ('app', fname, (terms...))
Entries: name -> (Term | Broken, optional?)
"""
from .sym import App


class Broken:
    def __init__(self, missing):
        self.missing = frozenset(missing)   # {(layer index, input name)}

    def __repr__(self):
        return f'Broken({sorted(self.missing)})'


class RefError(Exception):
    def __init__(self, kind, text=''):
        super().__init__(kind + ': ' + text)
        self.kind = kind


def flatten(layer):
    """A pipeline description -> the flat list of elementary layers (chains flatten: C09)."""
    if layer['k'] == 'chain':
        out = []
        for x in layer['layers']:
            out.extend(flatten(x))
        return out
    return [layer]


class L:
    """The abstract content of one elementary layer."""

    def __init__(self, d, index):
        self.d, self.index, k = d, index, d['k']
        self.kind = k
        self.defs, self.params, self.opt, self.persistent = {}, {}, set(), set()
        self.cache_names = None
        owner = d.get('cls', k)
        if k in ('source', 'transform'):
            for name, spec in d.get('fields', {}).items():
                # an argument annotated `Output` reads the layer's OWN output of that name: written 'out:<name>' here
                self.defs[name] = (self.fname(spec, owner, name),
                                   [('out:' + a if a in spec.get('outargs', []) else a) for a in spec.get('args', [])])
                if spec.get('opt'):
                    self.opt.add(name)
            for name, spec in d.get('params', {}).items():
                self.params[name] = ('fn', self.fname(spec, owner, name), list(spec.get('args', [])))
            for arg, v in {**d.get('defaults', {}), **d.get('cargs', {})}.items():
                self.params['_' + arg] = ('const', v)
            for arg in d.get('defaults', {}):
                if arg not in d.get('cargs', {}):
                    self.params['_' + arg] = ('const', d['defaults'][arg])
            if k == 'source':
                # the first non-private argument of every function is the key
                def rekey(args):
                    return ['id' if not a.startswith('_') else a for a in args]
                self.defs = {n: (f, rekey(a)) for n, (f, a) in self.defs.items()}
                self.params = {n: (p if p[0] == 'const' else ('fn', p[1], rekey(p[2]))) for n, p in self.params.items()}
                self.defs['id'] = ('$identity', ['id'])
                self.defs['ids'] = ('$const', tuple(d['ids']))
                self.persistent = {'id', 'ids'} | {n for n, s in d.get('fields', {}).items() if s.get('meta')}
        elif k == 'apply':
            for name, f in d['fns'].items():
                self.defs[name] = (f, [name])
        elif k in ('ram', 'disk', 'columns'):
            self.cache_names = d.get('names')
        else:
            raise ValueError(k)

    @staticmethod
    def fname(spec, owner, name):
        return spec.get('f') or f'{owner}.{name}'

    def inherits(self, n):
        k = self.kind
        if k in ('ram', 'disk', 'columns'):
            return True
        if k == 'apply':
            return n not in self.defs
        if k == 'source':
            return False
        inh, exc = self.d.get('inherit'), self.d.get('exclude')
        if exc:
            return n not in exc and n not in self.defs
        if inh is True:
            return n not in self.defs
        if inh:
            return n in inh
        return False

    def input_names(self):
        """all Input nodes of the layer's bag (also those only an unused parameter reads)"""
        out = set()
        for _, args in self.defs.values():
            if isinstance(args, list):
                out |= {a for a in args if not a.startswith('_') and not a.startswith('out:')}
        for p in self.params.values():
            if p[0] == 'fn':
                out |= {a for a in p[2] if not a.startswith('_')}
        return out

    def deps(self, name, seen=()):
        """input names the output `name` transitively depends on (through private parameters)"""
        f, args = self.defs[name]
        if f == '$const':
            return set()
        return self._deps_args(args, seen)

    def used_params(self, name):
        """private parameters (functions) the output `name` transitively uses"""
        out, todo = [], [a for a in self.defs[name][1] if isinstance(a, str) and (a.startswith('_') or a.startswith('out:'))] \
            if isinstance(self.defs[name][1], list) else []
        seen_out = set()
        while todo:
            p = todo.pop()
            if p.startswith('out:'):
                if p not in seen_out and p[4:] in self.defs and isinstance(self.defs[p[4:]][1], list):
                    seen_out.add(p)
                    todo.extend(a for a in self.defs[p[4:]][1] if a.startswith('_') or a.startswith('out:'))
                continue
            q = self.params.get(p)
            if q is None or q[0] != 'fn' or p in out:
                continue
            out.append(p)
            todo.extend(a for a in q[2] if a.startswith('_'))
        return out

    def _deps_args(self, args, seen):
        out = set()
        for a in args:
            if a.startswith('out:'):
                if a not in seen and a[4:] in self.defs and self.defs[a[4:]][0] != '$const':
                    out |= self._deps_args(self.defs[a[4:]][1], seen + (a,))
            elif a.startswith('_'):
                p = self.params.get(a)
                if p is None:
                    raise RefError('FieldError', f'parameter {a} is not defined')
                if p[0] == 'fn' and a not in seen:
                    out |= self._deps_args(p[2], seen + (a,))
            else:
                out.add(a)
        return out


def leaf_optional(l: L, x, materialised):
    """Is the (missing) input x of layer l an optional node?  All its users must be marked outputs; a pass-through
    of x by l itself is a required user (C18)."""
    users = [o for o in l.defs if l.defs[o][0] != '$const' and x in l.deps(o)]
    if x in materialised:
        return False
    # a private parameter that some output uses and that (transitively) reads x is a required user as well
    for o in l.defs:
        if l.defs[o][0] == '$const':
            continue
        for p in l.used_params(o):
            if x in l._deps_args(l.params[p][2], (p,)):
                return False
    return bool(users) and all(u in l.opt for u in users)


def sig(layers):
    """-> (out: name -> (Term|Broken, optional?), virt: predicate, info)"""
    out, virt, persistent = {}, (lambda n: True), set()
    leaf_opt = {}   # (layer index, name) -> bool
    for l in layers:
        if l.kind in ('ram', 'disk', 'columns'):
            new = {}
            for n, (t, o) in out.items():
                cached = l.cache_names is None or n in l.cache_names
                new[n] = (t, True if cached else o)
            out = new
            # virtual names stay virtual
            continue
        if l.kind == 'transform':
            inh = l.d.get('inherit')
            if inh not in (None, True, False) and not l.d.get('exclude') and set(inh) & set(l.defs):
                raise RefError('GraphError', 'inherited and defined')

        def lookup(i, l=l, out=out, virt=virt):
            if i in out:
                return out[i][0]
            if virt(i):
                return ('in', i)
            return Broken({(l.index, i)})

        def term_of(f, args, l=l, lookup=lookup, depth=0):
            if f == '$const':
                return ('const', args)
            if depth > 50:
                raise RefError('GraphError', 'cycle')
            ts, miss = [], set()
            for a in args:
                if a.startswith('out:'):
                    if a[4:] not in l.defs:
                        raise RefError('FieldError', f'output {a[4:]}')
                    t = term_of(*l.defs[a[4:]], depth=depth + 1)
                elif a.startswith('_'):
                    p = l.params.get(a)
                    if p is None:
                        raise RefError('FieldError', f'parameter {a}')
                    t = ('const', p[1]) if p[0] == 'const' else term_of(p[1], p[2], depth=depth + 1)
                else:
                    t = lookup(a)
                if isinstance(t, Broken):
                    miss |= t.missing
                ts.append(t)
            if miss:
                return Broken(miss)
            if f == '$identity':
                return ts[0]
            return ('app', f, tuple(ts))

        inherits = (lambda n, l=l, persistent=persistent: l.inherits(n) or (n in persistent and n not in l.defs))
        new, used = {}, l.input_names()
        materialised = set()
        for n, (f, args) in l.defs.items():
            new[n] = (term_of(f, args), n in l.opt)
        for n in out:
            if n not in l.defs and inherits(n):
                if n in used and l.inherits(n):
                    new[n] = (out[n][0], False)
                    materialised.add(n)
                else:
                    new[n] = out[n]
        for n in used:
            if l.inherits(n) and n not in out and n not in l.defs:
                new[n] = (lookup(n), False)
                materialised.add(n)
        for x in used:
            leaf_opt[(l.index, x)] = leaf_optional(l, x, materialised)
        virt = (lambda n, v=virt, l=l, new=new: v(n) and l.inherits(n) and n not in new)
        persistent = persistent | l.persistent
        out = new
    return out, virt, leaf_opt


def resolve(stack):
    """Full observable behaviour of a stack.  Returns
    {'construct_err': kind} | {'dir': [...], 'fields': {name: {'term':..,'sig':[..]}|{'identity':True}|{'err':kind}}} or
    {'dir_err': 'DependencyError', ...}"""
    layers = [L(d, i) for i, d in enumerate(flatten(stack))]
    try:
        out, virt, leaf_opt = sig(layers)
    except RefError as e:
        return {'construct_err': e.kind}
    res = {'out': out, 'virt': virt}
    bad = []
    for n, (t, o) in out.items():
        if isinstance(t, Broken):
            if not (o and all(leaf_opt.get(m, False) for m in t.missing)):
                bad.append((n, sorted(x for _, x in t.missing)))
    res['dependency_error'] = bad
    res['dir'] = sorted(n for n, (t, o) in out.items() if not isinstance(t, Broken))
    return res


def term_inputs(t, acc=None):
    acc = set() if acc is None else acc
    if t[0] == 'in':
        acc.add(t[1])
    elif t[0] == 'app':
        for a in t[2]:
            term_inputs(a, acc)
    return acc


def term_value(t, env):
    """the symbolic value of a term on inputs env (name -> value)"""
    from .real_vm import json_to_py
    if t[0] == 'in':
        return env[t[1]]
    if t[0] == 'const':
        return json_to_py(t[1]) if not isinstance(t[1], tuple) else t[1]
    return App(t[1], tuple(term_value(a, env) for a in t[2]), ())


def expect_field(res, name):
    """what `_compile(name)` must do: {'err': 'FieldError'} | {'identity': True} | {'sig': [...], 'term': t}"""
    out, virt = res['out'], res['virt']
    if name in out and not isinstance(out[name][0], Broken):
        t = out[name][0]
        return {'sig': sorted(term_inputs(t)), 'term': t}
    if name in out:
        return {'err': 'FieldError'}
    if virt(name):
        return {'identity': True}
    return {'err': 'FieldError'}
