"""S-BAG: layer stacks built through the public API against the reference semantics (refsem) and, where the
Lean bag model covers them, against the model."""
import json, random
from . import refsem
from .pipeline import Builder, observe
from .codec import canon, val_to_json, exc_name
from .gen_pipe import gen_stack, POOL

NAMES = POOL + ['id', 'ids', 'zz']


DECOY = {1: True, True: 1, 0: False, False: 0, 2: 2.0}


def decoys(b, flat):
    """instances of the same classes built first with ==-equal arguments of another type: instances of one
    layer class with different constructor arguments must not influence each other"""
    for d in flat:
        if d['k'] in ('source', 'transform') and d.get('cargs'):
            alt = {}
            for k, v in d['cargs'].items():
                key = v if isinstance(v, (int, bool)) else None
                for a, c in DECOY.items():
                    if key is not None and a == key and type(a) is type(key):
                        alt[k] = c
            if alt:
                try:
                    b.make_class(d)(**{**{k: v for k, v in d['cargs'].items()}, **alt})
                except Exception:
                    pass


def build(stack, builder=None):
    b = builder or Builder()
    try:
        flat = refsem.flatten(stack)
        decoys(b, flat)
        if len(flat) == 1:
            return b, b.layer(flat[0]), None
        return b, b.layer(stack), None
    except Exception as e:
        return b, None, exc_name(e)


def compare(stack, tuples=()):
    """-> list of differences between the real pipeline and the reference semantics."""
    b, layer, err = build(stack)
    ref = refsem.resolve(stack)
    diffs = []
    if 'construct_err' in ref or err:
        if ref.get('construct_err') != err:
            diffs.append(('construct', err, ref.get('construct_err')))
        return diffs, {'construct_err': err}
    obs = observe(b, layer, NAMES, tuples=tuples)
    if ref['dependency_error']:
        if obs.get('dir_err') != 'DependencyError':
            diffs.append(('dir', obs.get('dir', obs.get('dir_err')), 'DependencyError ' + json.dumps(ref['dependency_error'])))
        elif obs.get('dir_second') != 'ERR DependencyError' or obs.get('compiled_after_error'):
            diffs.append(('second-access', {'dir': obs.get('dir_second'), 'compiled': obs.get('compiled_after_error')},
                          'DependencyError again: the pipeline is unusable'))
        else:
            # the message names the field and the missing inputs (C18)
            msg = obs.get('dir_err_msg', '')
            if not any(repr(f) in msg and all(repr(m) in msg for m in miss) for f, miss in ref['dependency_error']):
                diffs.append(('dependency-error-text', msg[:300], json.dumps(ref['dependency_error'])))
        return diffs, obs
    if 'dir_err' in obs:
        diffs.append(('dir', obs['dir_err'], ref['dir']))
        return diffs, obs
    if obs['dir'] != ref['dir']:
        diffs.append(('dir', obs['dir'], ref['dir']))
    # attribute access: a name some layer of the stack declares as a property (`@meta`, the `ids` of a Source) is a VALUE, every other
    # field a function - whatever the later layers do with the name (a LazyChain does not forward the properties of its members)
    flat = refsem.flatten(stack)
    if not _has_lazy(stack) and 'attrs' in obs:
        props = set()
        for d in flat:
            if d['k'] in ('source', 'transform'):
                props |= {n for n, sp in d.get('fields', {}).items() if sp.get('meta')}
            if d['k'] == 'source':
                props.add('ids')
        for name, got in obs['attrs'].items():
            if got.startswith('err:'):
                continue
            if (name in props) != got.startswith('value:'):
                diffs.append((name + ':attribute', got[:80], 'a value (a property of the pipeline)' if name in props else 'a function'))
    for name in NAMES:
        exp = refsem.expect_field(ref, name)
        got = obs['fields'][name]
        if 'err' in exp:
            if got.get('err') != exp['err']:
                diffs.append((name, got, exp))
            continue
        if 'err' in got:
            diffs.append((name, got, {k: v for k, v in exp.items() if k != 'term'}))
            continue
        if exp.get('identity'):
            if not (got.get('identity') or (got.get('sig') == [name] and got.get('value') == '$' + name)):
                diffs.append((name, got, exp))
            continue
        if got.get('identity'):
            diffs.append((name, got, 'a computed field'))
            continue
        if got['sig'] != exp['sig']:
            diffs.append((name + ':sig', got['sig'], exp['sig']))
            continue
        want = val_to_json(refsem.term_value(exp['term'], {p: '$' + p for p in exp['sig']}), b.world)
        if 'value' not in got or canon(got['value']) != canon(want):
            diffs.append((name + ':value', got.get('value', got.get('value_err')), want))
    return diffs, obs


def _has_lazy(stack):
    return stack.get('k') == 'chain' and (stack.get('flavour') == 'lazy' or any(_has_lazy(x) for x in stack.get('layers', [])))


def model_request(stack):
    return {'op': 'stack', 'layers': refsem.flatten(stack), 'names': NAMES}


def compare_model(obs, ans):
    """differences between the real pipeline's observation (`observe`, or {'construct_err'}) and the Lean model"""
    diffs = []
    if 'error' in ans:
        return [('driver', None, ans['error'])]
    real_c = obs.get('construct_err')
    if real_c or 'construct_err' in ans:
        if real_c != ans.get('construct_err'):
            diffs.append(('construct', real_c, ans.get('construct_err')))
        return diffs
    if 'dir_err' in obs or 'dir_err' in ans:
        if obs.get('dir_err') != ans.get('dir_err'):
            diffs.append(('dir', obs.get('dir', obs.get('dir_err')), ans.get('dir', ans.get('dir_err'))))
        return diffs
    if obs['dir'] != ans['dir']:
        diffs.append(('dir', obs['dir'], ans['dir']))
    for name in NAMES:
        got, exp = obs['fields'][name], ans['fields'][name]
        if 'err' in exp or 'err' in got:
            if got.get('err') != exp.get('err'):
                diffs.append((name, got, exp))
            continue
        if exp.get('identity'):
            if not (got.get('identity') or (got.get('sig') == [name] and got.get('value') == '$' + name)):
                diffs.append((name, got, exp))
            continue
        if got.get('identity'):
            if not (exp.get('sig') == [name] and exp.get('value') == '$' + name):
                diffs.append((name, got, exp))
            continue
        if got['sig'] != exp['sig']:
            diffs.append((name + ':sig', got['sig'], exp['sig']))
        elif 'value' not in got or canon(got['value']) != canon(exp['value']):
            diffs.append((name + ':value', got.get('value', got.get('value_err')), exp['value']))
    return diffs


def shrink_stack(stack, still_fails):
    """drop layers one at a time while `still_fails(stack)` holds"""
    layers = list(refsem.flatten(stack))
    try:
        if not still_fails({'k': 'chain', 'flavour': 'chain', 'layers': layers}):
            return stack          # fails only in this bracketing: keep it
    except Exception:
        return stack
    i = 0
    while i < len(layers) and len(layers) > 1:
        cand = layers[:i] + layers[i + 1:]
        if cand[0]['k'] not in ('source', 'transform', 'apply'):
            i += 1
            continue
        try:
            ok = still_fails({'k': 'chain', 'flavour': 'chain', 'layers': cand})
        except Exception:
            ok = False
        if ok:
            layers = cand
        else:
            i += 1
    return {'k': 'chain', 'flavour': 'chain', 'layers': layers}


def nest(rng, stack):
    """a random bracketing of a flat stack (Chain / >> / LazyChain), or None"""
    from .suite_alias import rand_tree, valid_tree, tree_desc
    flat = refsem.flatten(stack)
    if len(flat) < 3 or rng.random() < 0.5:
        return None
    for _ in range(6):
        t = rand_tree(rng, 0, len(flat), flat)
        if valid_tree(t, flat) and any(c[0] != 'leaf' for c in t[1]):
            return tree_desc(t, flat)
    return None


def run_shard(args):
    """-> stats, oracle failures, model disagreements, sample"""
    seed, n, opts = args
    from . import driver
    stacks = []
    for i in range(n):
        rng = random.Random(seed * 100003 + i)
        stacks.append(gen_stack(rng, max_layers=opts.get('max_layers', 6), caches=opts.get('caches', True),
                                p_avail=opts.get('p_avail', 0.85), p_opt=opts.get('p_opt', 0.3)))
    answers = driver.run_lines([model_request(s) for s in stacks])
    stats = {'stacks': 0, 'construct_err': 0, 'dependency_error': 0, 'ok': 0, 'fields_checked': 0, 'layers': {},
             'kinds': {}, 'optional_marks': 0, 'quietly_dropped': 0}
    distinct = set()
    oracle_bad, model_bad = [], []
    sample = None
    for st, ans in zip(stacks, answers):
        stats['stacks'] += 1
        flat = refsem.flatten(st)
        stats['layers'][len(flat)] = stats['layers'].get(len(flat), 0) + 1
        for l in flat:
            stats['kinds'][l['k']] = stats['kinds'].get(l['k'], 0) + 1
            stats['optional_marks'] += sum(1 for f in l.get('fields', {}).values() if f.get('opt'))
        try:
            # half of the stacks are built in a random bracketing / chain flavour (the semantics is that of the flat stack);
            # a bracketing one of whose sub-chains does not construct on its own is not compared (reading 7.1 of DESIGN.md)
            nested = nest(random.Random(seed * 7919 + stats['stacks']), st)
            diffs, obs = compare(nested) if nested is not None else compare(st)
            if nested is not None:
                stats['nested'] = stats.get('nested', 0) + 1
                if obs.get('construct_err') and not refsem.resolve(st).get('construct_err'):
                    stats['nested_unbuildable'] = stats.get('nested_unbuildable', 0) + 1
                    diffs, obs = compare(st)
                elif diffs:
                    st = nested
        except Exception as e:
            oracle_bad.append({'stack': st, 'diffs': [['harness', exc_name(e), str(e)[:300]]]})
            continue
        if obs.get('construct_err'):
            stats['construct_err'] += 1
        elif 'dir_err' in obs:
            stats['dependency_error'] += 1
        else:
            stats['ok'] += 1
            stats['fields_checked'] += len(NAMES)
            ref = refsem.resolve(st)
            stats['quietly_dropped'] += sum(1 for n, (t, o) in ref.get('out', {}).items() if isinstance(t, refsem.Broken))
            if len(flat) >= 2 and len(obs.get('dir', [])) >= 2:
                distinct.add(json.dumps(st, sort_keys=True))
        if diffs:
            oracle_bad.append({'stack': st, 'diffs': json.loads(json.dumps(diffs[:4], default=str))})
        md = compare_model(obs, ans)
        if md:
            model_bad.append({'stack': st, 'diffs': json.loads(json.dumps(md[:4], default=str))})
        if sample is None and 'dir' in obs and len(flat) >= 3:
            sample = {'stack': st, 'observed': {'dir': obs['dir'], 'fields': {k: {kk: vv for kk, vv in v.items() if kk in ('sig', 'err', 'identity')}
                                                                                  for k, v in obs['fields'].items()}}}
    stats['distinct_nontrivial'] = len(distinct)
    return stats, oracle_bad, model_bad, sample


def oracle_fails(stack):
    diffs, _ = compare(stack)
    return bool(diffs)
