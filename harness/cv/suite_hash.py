"""S-HASH (engine level): pairs of evaluations with equal NodeHash must denote equal computations.
The pairs come from a base graph and its single-step mutants, which share their function objects."""
import copy, json, os, random
from . import paths
from .codec import canon, val_to_json
from .gen_vm import gen_graph, IDS
from .real_vm import RealVM, json_to_py
from .oracle_vm import Oracle, OErr
from .sym import SymWorld, App

SILENT = App('$silent', (), ())


class SilentOracle(Oracle):
    """The computation with Silent arguments erased (they are exempt by design)."""
    static = False      # static graph hashes see through by-value wrappers and barriers structurally

    def edge_value(self, n, e, ps):
        if e['k'] in ('byvalue', 'barrier') and self.static:
            return self.edge_value(n, e['inner'], ps) if e['k'] == 'byvalue' else self.value(ps[0])
        if e['k'] in ('byvalue', 'impure', 'barrier'):
            # hashed by value: the identity of the computation is the actual value, Silent marks upstream included
            return Oracle(self.case, self.env).value(n)
        if e['k'] == 'fn' and e.get('silent'):
            vals, errs = [], set()
            for i, p in enumerate(ps):
                if i in e['silent']:
                    vals.append(SILENT)
                    continue
                try:
                    vals.append(self.value(p))
                except OErr as ex:
                    errs |= ex.kinds
            if errs:
                raise OErr(errs)
            kw = e.get('kw', [])
            npos = len(vals) - len(kw)
            from .sym import Imp
            kwt = tuple(sorted(zip(kw, vals[npos:])))
            for name, v in self.case.get('const_fns', []):
                if name == e['f']:
                    return json_to_py(v)
            if e['f'] in self.case.get('impure', []):
                return Imp(e['f'], n, tuple(vals[:npos]), kwt)
            return App(e['f'], tuple(vals[:npos]), kwt)
        return super().edge_value(n, e, ps)


def mutants(rng, case, k=6):
    """Single-step mutants: another function, another constant, swapped arguments, another keyword name,
    another wiring, another switch routing."""
    out = []
    nodes = case['nodes']
    idx = [i for i, n in enumerate(nodes) if n['edge'] is not None]
    fnames = sorted({n['edge']['f'] for n in nodes if n['edge'] and n['edge']['k'] == 'fn'} | {'f0', 'f1'})
    for _ in range(k * 3):
        if len(out) >= k or not idx:
            break
        c = copy.deepcopy(case)
        i = rng.choice(idx)
        n = c['nodes'][i]
        e = n['edge']
        inner = e['inner'] if e['k'] in ('byvalue', 'impure') else e
        kind = rng.choice(['fn', 'const', 'swap', 'kw', 'wire', 'table', 'silent_pos', 'wrap'])
        what = None
        if kind == 'fn' and inner['k'] == 'fn':
            other = [f for f in fnames if f != inner['f'] and f not in case.get('impure', [])]
            if other:
                inner['f'] = rng.choice(other)
                what = 'fn'
        elif kind == 'wrap' and inner['k'] == 'fn' and not inner['f'].startswith('W:') and inner['f'] not in case.get('impure', []) \
                and inner['f'] not in [c[0] for c in case.get('const_fns', [])]:
            inner['f'] = 'W:' + inner['f']      # a decorated version (functools.wraps) of the same function: another computation
            what = 'wrap'
        elif kind == 'const' and e['k'] == 'const' and n['name'].startswith('n'):
            if isinstance(e['v'], list) and rng.random() < 0.6:
                # the same items in a list instead of a tuple (JSON lists are tuples): another constant
                e['v'] = {'app': ['$list', e['v'], [], []]}
            else:
                e['v'] = rng.choice([x for x in [0, 1, 'a', 'b', None, [1], 'q'] if x != e['v']])
            what = 'const'
        elif kind == 'swap' and len(n['parents']) >= 2 and e['k'] in ('fn', 'product', 'byvalue'):
            a, b = rng.sample(range(len(n['parents'])), 2)
            if n['parents'][a] != n['parents'][b]:
                n['parents'][a], n['parents'][b] = n['parents'][b], n['parents'][a]
                what = 'swap'
        elif kind == 'kw' and inner['k'] == 'fn' and inner.get('kw'):
            names = [x for x in 'abcdefg' if x not in inner['kw']]
            kw = list(inner['kw'])
            kw[rng.randrange(len(kw))] = rng.choice(names)
            if kw == sorted(kw):
                inner['kw'] = kw
                what = 'kw'
        elif kind == 'wire' and n['parents'] and e['k'] in ('fn', 'product', 'ident', 'cache', 'barrier', 'byvalue'):
            j = rng.randrange(len(n['parents']))
            cands = [p for p in range(i) if p != n['parents'][j] and not nodes[p]['name'].startswith('m')]
            if cands:
                n['parents'][j] = rng.choice(cands)
                what = 'wire'
        elif kind == 'table' and e['k'] == 'switch' and len(n['parents']) > 2:
            row = rng.choice(e['table'])
            row[1] = (row[1] + 1) % (len(n['parents']) - 1)
            what = 'table'
        elif kind == 'silent_pos' and inner['k'] == 'fn' and inner.get('silent') and len(n['parents']) >= 2:
            # same function, the silent mark moved to another position
            pos = [p for p in range(len(n['parents'])) if p not in inner['silent']]
            if pos:
                inner['silent'] = [rng.choice(pos)]
                what = 'silent_pos'
        if what:
            out.append((what, c))
    return out


def run_family(seed, max_nodes=12):
    """One base graph and its mutants: returns (n_evaluations, collisions, stats)."""
    rng = random.Random(seed)
    # no cache edges: through a cache a Silent argument may legitimately serve the value of an earlier evaluation,
    # which then flows into by-value hashes downstream (exempt by design); caches are hash-transparent anyway
    kinds = {'fn': 10, 'ident': 2, 'const': 2, 'product': 2, 'barrier': 2, 'byvalue': 2, 'impure': 2,
             'switch': 2, 'switch_branch': 1, 'switch_missing': 1, 'check_ids': 1}
    base = gen_graph(rng, max_nodes=max_nodes, malformed=0.0, kinds=kinds)
    fam = [('base', base)] + mutants(rng, base)
    world = SymWorld()
    n_in = sum(1 for n in base['nodes'] if n['edge'] is None)
    envs = []
    for _ in range(2):
        envs.append({f'x{i}': rng.choice(IDS + ['z', 0, 1, -1, -2, None]) for i in range(n_in)})
    groups = {}
    evals = 0
    kinds = {}
    for what, case in fam:
        kinds[what] = kinds.get(what, 0) + 1
        try:
            vm = RealVM(case, world)
        except Exception:
            continue
        for out, nd in enumerate(case['nodes']):
            if nd['edge'] is None or nd['name'].startswith('m'):
                continue
            for env in envs:
                try:
                    g = vm.graph(out)
                    sig = list(g.__signature__.parameters)
                    h, _ = g.get_hash(*[json_to_py(env[k]) for k in sig])
                except Exception:
                    continue
                try:
                    v = SilentOracle(case, env).value(out)
                except (OErr, TypeError):
                    continue
                evals += 1
                try:
                    key = h.value
                    hash(key)
                except TypeError:
                    continue
                groups.setdefault(key, []).append((v, what, out, env, case))
    collisions = []
    pyeq_only = []
    for key, items in groups.items():
        first = items[0]
        c0 = canon(val_to_json(first[0], world))
        for it in items[1:]:
            if canon(val_to_json(it[0], world)) != c0:
                rec = {'hash': repr(key)[:300], 'a': {'variant': first[1], 'out': first[2], 'env': first[3], 'case': first[4]},
                       'b': {'variant': it[1], 'out': it[2], 'env': it[3], 'case': it[4]},
                       'value_a': c0[:2000], 'value_b': canon(val_to_json(it[0], world))[:2000]}
                if it[0] == first[0]:
                    pyeq_only.append(rec)      # equal under Python `==` (0 == False, 1 == True): finding F3
                elif _silent_as_none(rec['value_a']) == _silent_as_none(rec['value_b']):
                    rec['silent_none'] = True   # a Silent position vs an argument whose value is None: finding F9
                    collisions.append(rec)
                else:
                    collisions.append(rec)
                break
    nontrivial = sum(1 for k, items in groups.items() if len(items) >= 2)
    return evals, collisions, pyeq_only, {'variants': kinds, 'groups': len(groups), 'groups_with_pairs': nontrivial}


class StaticOracle(SilentOracle):
    static = True


def run_family_static(seed, max_nodes=10):
    """C06 at the engine level: one single-input base graph and its mutants; every node's STATIC hash (`Graph.hash()`);
    graphs with equal static hashes must compute the same function of the input (Silent-erased oracle on 3 inputs)."""
    rng = random.Random(seed)
    kinds = {'fn': 10, 'ident': 2, 'const': 2, 'product': 2, 'barrier': 2, 'byvalue': 2,
             'switch': 2, 'switch_branch': 1, 'switch_missing': 1}
    for _ in range(20):
        base = gen_graph(rng, max_nodes=max_nodes, malformed=0.0, kinds=kinds)
        if sum(1 for n in base['nodes'] if n['edge'] is None) == 1:
            break
    else:
        return 0, [], {}
    base['impure'] = []
    fam = [('base', base)] + mutants(rng, base)
    world = SymWorld()
    envs = [{'x0': v} for v in rng.sample(IDS + ['z', 0, 1, -1], 3)]
    groups, evals, kinds_seen = {}, 0, {}
    for what, case in fam:
        kinds_seen[what] = kinds_seen.get(what, 0) + 1
        try:
            vm = RealVM(case, world)
        except Exception:
            continue
        for out, nd in enumerate(case['nodes']):
            if nd['edge'] is None or nd['name'].startswith('m'):
                continue
            try:
                key = vm.graph(out).hash().value
                hash(key)
            except Exception:
                continue
            table, raw = [], []
            for env in envs:
                try:
                    v = StaticOracle(case, env).value(out)
                    raw.append(v)
                    table.append(canon(val_to_json(v, world)))
                except OErr as e:
                    raw.append(('ERR', tuple(sorted(e.kinds))))
                    table.append('ERR ' + ','.join(sorted(e.kinds)))
                except TypeError:
                    raw.append('?')
                    table.append('?')
            evals += 1
            groups.setdefault(key, []).append((table, what, out, case, raw))
    collisions = []
    for key, items in groups.items():
        first = items[0]
        for it in items[1:]:
            if it[0] != first[0] and '?' not in it[0] + first[0]:
                a, b = ''.join(first[0]), ''.join(it[0])
                if _silent_as_none(a) == _silent_as_none(b):
                    continue        # Silent vs None (finding F9, reported under C05)
                try:
                    if it[4] == first[4]:
                        continue    # equal under Python == (0 == False, 1 == True): finding F3, reported under C05
                except Exception:
                    pass
                collisions.append({'hash': repr(key)[:300], 'envs': envs,
                                   'a': {'variant': first[1], 'out': first[2], 'case': first[3], 'table': first[0]},
                                   'b': {'variant': it[1], 'out': it[2], 'case': it[3], 'table': it[0]},
                                   'msg': f'equal static graph hash for different functions of the input: {first[0]} vs {it[0]} '
                                          f'(variant {it[1]})'[:500]})
                break
    return evals, collisions, kinds_seen


def _silent_as_none(canon_text):
    return canon_text.replace('{"app":["$silent",[],[],[]]}', 'null')


def check_pair(rec):
    """Replay of one recorded collision against the real code."""
    world = SymWorld()
    res = []
    for side in ('a', 'b'):
        s = rec[side]
        vm = RealVM(s['case'], world)
        g = vm.graph(s['out'])
        sig = list(g.__signature__.parameters)
        h, _ = g.get_hash(*[json_to_py(s['env'][k]) for k in sig])
        v = SilentOracle(s['case'], s['env']).value(s['out'])
        res.append((h, canon(val_to_json(v, world))))
    return res[0][0] == res[1][0] and res[0][1] != res[1][1]


# ---------------------------------------------------------------- explicit Function(...) bindings (pipeline level)

def run_explicit_functions(seed, n):
    """Transform fields written as `Function(f, 'a', kw=Silent('b'), other='c')`: positional and keyword bindings, some wrapped in
    Silent, the keywords written down in a random (not alphabetical) order.  For every input of the field: changing it changes the
    node hash iff its binding is not Silent (C05; and C07 for the Silent ones), and the value always follows the inputs."""
    import inspect
    from .pipeline import Builder
    from .sym import SymWorld
    from .codec import val_to_json, hash_to_json
    problems, cases = [], 0
    for c in range(n):
        rng = random.Random(seed * 8191 + c)
        world = SymWorld()
        b = Builder(world)
        names = ['a', 'b', 'c', 'd', 'e'][:rng.randint(2, 5)]
        n_pos = rng.randint(0, len(names) - 1)
        pos, kw_src = names[:n_pos], names[n_pos:]
        kw_names = [f'k{j}' for j in range(len(kw_src))]
        params = [f'p{j}' for j in range(n_pos)] + kw_names
        kwbind = dict(zip(kw_names, kw_src))
        order = list(kw_names)
        rng.shuffle(order)
        kwsilent = [k for k in kw_names if rng.random() < 0.4]
        possilent = [i for i in range(n_pos) if rng.random() < 0.25]
        silent_inputs = {kwbind[k] for k in kwsilent} | {pos[i] for i in possilent}
        d = {'k': 'transform', 'cls': f'EF{c}', 'params': {}, 'cargs': {}, 'defaults': {},
             'fields': {'out': {'args': params, 'f': f'EF{c}.out', 'posbind': pos, 'kwbind': kwbind, 'kworder': order,
                                'kwsilent': kwsilent, 'possilent': possilent}}}
        try:
            layer = b.layer(d)
            fn = layer._compile('out')
            sig = list(inspect.signature(fn).parameters)
            base = {p_: 10 + i for i, p_ in enumerate(sig)}

            def obs(env):
                h = fn.get_hash(*[env[p_] for p_ in sig])[0]
                return canon(hash_to_json(h.value, world)), canon(val_to_json(fn(**env), world))
            h0, v0 = obs(base)
            cases += 1
            for name in sig:
                env = dict(base, **{name: base[name] + 100})
                h1, v1 = obs(env)
                want_v = canon({'app': [f'EF{c}.out', [env[a] for a in pos] + [env[kwbind[k]] for k in kw_names], [], []]})
                if v1 != want_v:
                    problems.append({'desc': d, 'msg': f'Function(...) with bindings {pos} {kwbind} written as {order}: the value for {env} is {v1[:150]}, expected {want_v[:150]}'})
                    break
                if name not in silent_inputs and h1 == h0:
                    problems.append({'desc': d, 'kind': 'collision',
                                     'msg': f'Function(f, {pos}, keywords {order} -> {kwbind}, Silent: {sorted(silent_inputs)}): changing the non-silent input '
                                            f'{name!r} did not change the node hash (two different computations, one hash)'})
                    break
                if name in silent_inputs and h1 != h0:
                    problems.append({'desc': d, 'kind': 'silent-changes-hash',
                                     'msg': f'Function(...) with Silent inputs {sorted(silent_inputs)}: changing the Silent input {name!r} changed the node hash'})
                    break
        except Exception as e:
            problems.append({'desc': d, 'msg': 'explicit Function scenario raised ' + type(e).__name__ + ': ' + str(e)[:200]})
    return cases, problems


def run_default_keywords(seed):
    """one function with DEFAULT parameters bound through `Function(f, 'x', scale='k')` and `Function(f, 'x', shift='k')`: the same
    inputs under different keyword names are different computations - different values, so different node hashes (C05), and a disk
    cache shared by the two fields returns each its own value (C04)"""
    import tempfile, shutil
    paths.use_repo()
    import connectome as c
    from connectome.interface.edges import Function
    from .sym import App
    rng = random.Random(seed)
    names = rng.sample(['scale', 'shift', 'bias', 'gain'], 3)

    def affine(x, scale=1, shift=0, bias=0, gain=1):
        return App('affine', (x, scale, shift, bias, gain), ())
    fields = {f'by_{n}': Function(affine, 'x', **{n: 'k'}) for n in names}
    src = c.Transform(x=lambda id: ('x', id), k=lambda id: ('k', id))
    problems = []
    root = tempfile.mkdtemp(prefix='cv-dkw-', dir=ensure_dir())
    try:
        plain = src >> c.Transform(__inherit__=True, **fields)
        cached = plain >> c.CacheToDisk.simple(*fields, root=root)
        seen = {}
        for n in names:
            f = plain._compile(f'by_{n}')
            h = f.get_hash('a')[0]
            v = repr(f('a'))
            for m, (h2, v2) in seen.items():
                if h == h2 and v != v2:
                    problems.append({'kind': 'collision', 'msg': f'Function(affine, "x", {m}="k") and Function(affine, "x", {n}="k") (a function with default parameters) '
                                                                 f'have the same node hash, their values differ: {v2[:80]} vs {v[:80]}'})
            seen[n] = (h, v)
        for n in names + names:
            got = repr(getattr(cached, f'by_{n}')('a'))
            if got != seen[n][1]:
                problems.append({'kind': 'cache', 'msg': f'behind one CacheToDisk the field Function(affine, "x", {n}="k") returned {got[:80]}, '
                                                         f'without caches it returns {seen[n][1][:80]}'})
                break
    except Exception as e:
        problems.append({'kind': 'error', 'msg': 'default-keyword scenario raised ' + type(e).__name__ + ': ' + str(e)[:160]})
    finally:
        shutil.rmtree(root, ignore_errors=True)
    return problems


def ensure_dir():
    os.makedirs(paths.SCRATCH, exist_ok=True)
    return paths.SCRATCH


def run_byvalue_arrays(seed=0):
    """a field hashed by value whose values are numpy arrays: arrays that differ (in dtype, shape or content) are different values, so the
    node hashes of the fields derived from them differ - also when their raw bytes coincide (bool / uint8 masks, zeros of two dtypes, empty
    arrays of two dtypes)"""
    import hashlib
    import numpy as np
    paths.use_repo()
    import connectome as c
    from tarn.pickler import dumps
    arrays = {'bool': np.array([True, False, True]), 'uint8': np.array([1, 0, 1], dtype='uint8'), 'int8': np.array([1, 0, 1], dtype='int8'),
              'zeros-int64': np.zeros(2, dtype='int64'), 'zeros-float64': np.zeros(2, dtype='float64'), 'empty-float': np.zeros(0, dtype='float32'),
              'empty-int': np.zeros(0, dtype='int32'), 'row': np.zeros((1, 2), dtype='uint8'), 'col': np.zeros((2, 1), dtype='uint8')}
    problems = []
    try:
        from connectome.interface.complex_edges import hash_by_value
        pipe = c.Transform(mask=hash_by_value(lambda id: arrays[id]), id=lambda id: id) >> \
            c.Transform(__inherit__=True, kind=lambda mask: (str(mask.dtype), mask.shape, mask.tolist()))
        f = pipe._compile('kind')
        seen = {}
        for name in arrays:
            dg = hashlib.sha256(dumps(f.get_hash(name)[0].value)).hexdigest()[:16]
            v = f(name)
            if dg in seen and seen[dg][1] != v:
                problems.append({'msg': f'a field derived from a by-value array: the entries {seen[dg][0]!r} and {name!r} (values {seen[dg][1]!r} vs {v!r}) have the same node hash'})
                break
            seen[dg] = (name, v)
    except Exception as e:
        problems.append({'msg': 'by-value arrays scenario raised ' + type(e).__name__ + ': ' + str(e)[:150]})
    return problems
