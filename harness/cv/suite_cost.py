"""S-COST (C20): the number of Python-level calls of connectome's own functions (sys.setprofile, files under
/repo/connectome) while a pipeline of a parametric family is constructed, a field is compiled, and the compiled
function is called, for growing sizes; the growth must stay polynomial (at most quadratic)."""
import os, sys, time, resource, tempfile, shutil
from . import paths
from .pipeline import Builder
from .sym import SymWorld

LIMIT = 4_000_000      # a run that needs more steps than this for one phase is stopped: that is a finding in itself


class TooManySteps(Exception):
    pass


class Counter:
    def __init__(self):
        self.n = 0
        self.root = os.path.realpath(os.path.join(paths.REPO, 'connectome'))

    def __call__(self, frame, event, arg):
        if event == 'call' and frame.f_code.co_filename.startswith(self.root):
            self.n += 1
            if self.n > LIMIT:
                sys.setprofile(None)
                raise TooManySteps()

    def measure(self, fn):
        self.n = 0
        sys.setprofile(self)
        try:
            out = fn()
        finally:
            sys.setprofile(None)
        return out, self.n


def crop(idx, field='image'):
    return {'k': 'transform', 'cls': f'Crop{field}', 'fields': {field: {'args': [field, '_box'], 'f': f'crop.{field}'}},
            'params': {'_box': {'args': [field], 'f': f'box.{field}'}}, 'cargs': {}, 'defaults': {}, 'inherit': True}


def family(name, k, root):
    """(description, field to compile, argument)"""
    src = {'k': 'source', 'cls': 'CS', 'ids': ['i1', 'i2'], 'fields': {'image': {'args': ['i']}, 'other': {'args': ['i']},
                                                                      'key': {'args': ['i'], 'table': [[['i1'], 'u'], [['i2'], 'v']]}},
           'params': {}, 'cargs': {}, 'defaults': {}}
    if name == 'diamond':
        return {'k': 'chain', 'flavour': 'chain', 'layers': [src] + [crop(j) for j in range(k)]}, 'image', 'i1'
    if name == 'diamond-ram':
        return {'k': 'chain', 'flavour': 'chain', 'layers': [src] + [crop(j) for j in range(k)] + [{'k': 'ram', 'names': ['image'], 'size': None}]}, 'image', 'i1'
    if name == 'diamond-disk':
        return {'k': 'chain', 'flavour': 'chain', 'layers': [src] + [crop(j) for j in range(k)] + [{'k': 'disk', 'names': ['image'], 'root': 0}]}, 'image', 'i1'
    if name == 'diamond-columns':
        # the two-phase form (get_hash, then get_value from its state) CacheColumns uses while it generates a shard
        return {'k': 'chain', 'flavour': 'chain', 'layers': [src] + [crop(j) for j in range(k)] + [{'k': 'columns', 'names': ['image'], 'root': 0, 'shard': None}]}, 'image', 'i1'
    if name == 'diamond-meta':
        # the diamond pattern over a field that does not depend on the key
        return {'k': 'chain', 'flavour': 'chain', 'layers': [src] + [crop(j, 'ids') for j in range(k)]}, 'ids', None
    if name == 'diamond-filter':
        return {'k': 'chain', 'flavour': 'chain', 'layers': [src] + [crop(j) for j in range(k)] +
                [{'k': 'filter', 'f': 'cpred', 'args': ['image'], 'table': []}]}, 'ids', None
    if name == 'diamond-groupby':
        return {'k': 'chain', 'flavour': 'chain', 'layers': [src] + [crop(j) for j in range(k)] + [{'k': 'groupby', 'by': 'key'}]}, 'ids', None
    if name == 'diamond-const-groupby':
        # the diamond pattern over a field that depends on no input, under a layer that takes static graph hashes of every field
        s3 = dict(src, cls='CSC', fields=dict(src['fields'], classes={'args': []}))
        return {'k': 'chain', 'flavour': 'chain', 'layers': [s3] + [crop(j, 'classes') for j in range(k)] + [{'k': 'groupby', 'by': 'key'}]}, 'ids', None
    if name == 'diamond-disk-debuglog':
        # as diamond-disk, measured with DEBUG logging switched on and a handler that formats every record
        return family('diamond-disk', k, root)
    if name == 'stack-groupby-ram':
        # dataset-wide layers stacked on each other (each groups by a function of a field of the previous one), then a cache layer:
        # building walks the graphs nested inside the edges of the layers below
        return {'k': 'chain', 'flavour': 'chain', 'layers': [src] + [{'k': 'groupby', 'by': {'f': 'shorter', 'args': ['image']}} for j in range(k)] +
                [{'k': 'ram', 'names': None, 'size': None}]}, 'other', 'i1'
    if name == 'stack-filter-disk':
        return {'k': 'chain', 'flavour': 'chain', 'layers': [src] + [{'k': 'filter', 'f': f'cpred{j}', 'args': ['image'], 'table': []} for j in range(k)] +
                [{'k': 'disk', 'names': ['image', 'ids'], 'root': 0}]}, 'ids', None
    if name == 'crop-rshift':
        # a long pipeline assembled with `>>` (every `>>` wraps the previous pipeline in a new Chain: nesting as deep as the pipeline is long)
        return {'k': 'chain', 'flavour': 'rshift', 'layers': [src] + [crop(j) for j in range(k)]}, 'image', 'i1'
    if name == 'chain':
        layers = [src] + [{'k': 'transform', 'cls': f'Ch', 'fields': {'image': {'args': ['image'], 'f': 'ch.image'}}, 'params': {},
                           'cargs': {}, 'defaults': {}, 'inherit': True} for j in range(k)]
        return {'k': 'chain', 'flavour': 'chain', 'layers': layers}, 'image', 'i1'
    if name == 'fanin':
        names = [f'f{j}' for j in range(k)]
        s2 = dict(src, fields={n: {'args': ['i']} for n in names}, cls='CSW')
        t = {'k': 'transform', 'cls': 'Fan', 'fields': {'out': {'args': names, 'f': 'fan.out'}}, 'params': {}, 'cargs': {}, 'defaults': {}}
        return {'k': 'chain', 'flavour': 'chain', 'layers': [s2, t]}, 'out', 'i1'
    raise ValueError(name)


NOCALL = {'stack-groupby-ram'}      # the symbolic grouping function does not return ids: construction and compilation only
FAMILIES = ['crop-rshift', 'stack-groupby-ram', 'stack-filter-disk', 'diamond-columns', 'diamond', 'diamond-ram', 'diamond-disk', 'diamond-disk-debuglog', 'diamond-meta', 'diamond-filter', 'diamond-groupby', 'diamond-const-groupby', 'chain', 'fanin']


def measure_family(name, sizes, call_cached=True):
    """-> {k: {'build': steps, 'compile': steps, 'call': steps, 'call2': steps}}"""
    os.makedirs(paths.SCRATCH, exist_ok=True)
    out = {}
    handler = None
    if name.endswith('-debuglog'):
        import logging

        class Formatting(logging.Handler):
            def emit(self, record):
                self.format(record)
        handler = Formatting(level=logging.DEBUG)
        lg = logging.getLogger('connectome')
        old_level = lg.level
        lg.addHandler(handler)
        lg.setLevel(logging.DEBUG)
    try:
        return _measure_family(name, sizes, call_cached, out)
    finally:
        if handler is not None:
            lg.removeHandler(handler)
            lg.setLevel(old_level)


def _measure_family(name, sizes, call_cached, out):
    for k in sizes:
        root = tempfile.mkdtemp(prefix='cv-cost-', dir=paths.SCRATCH)
        try:
            desc, field, arg = family(name, k, root)
            c = Counter()
            b = Builder(SymWorld(), roots=[root])
            rec = {}
            try:
                layer, rec['build'] = c.measure(lambda: b.layer(desc))
                fn, rec['compile'] = c.measure(lambda: layer._compile(field))
                if (name == 'diamond-ram' and not call_cached) or name in NOCALL:
                    out[k] = rec
                    continue
                args = [] if arg is None else [arg]
                _, rec['call'] = c.measure(lambda: fn(*args))
                _, rec['call2'] = c.measure(lambda: fn(*args))
            except TooManySteps:
                rec['too_many'] = True
            except RecursionError:
                rec['recursion'] = True
            out[k] = rec
            if rec.get('too_many'):
                break
        finally:
            shutil.rmtree(root, ignore_errors=True)
    return name, out


def growth_problems(name, out, max_ratio=6.0):
    """a doubling of the size may multiply the steps by at most `max_ratio` (quadratic growth gives 4)"""
    problems = []
    ks = sorted(out)
    for k in ks:
        if out[k].get('too_many'):
            problems.append({'family': name, 'k': k, 'msg': f'{name}: more than {LIMIT} steps for {k} layers ({out[k]})'})
            return problems
    for a, b in zip(ks, ks[1:]):
        if b != 2 * a:
            continue
        for phase in ('build', 'compile', 'call', 'call2'):
            if phase in out[a] and phase in out[b] and out[a][phase] >= 50:
                ratio = out[b][phase] / out[a][phase]
                if ratio > max_ratio:
                    problems.append({'family': name, 'k': b, 'phase': phase, 'steps': {a: out[a][phase], b: out[b][phase]},
                                     'msg': f'{name}: {phase} takes {out[a][phase]} steps for {a} layers and {out[b][phase]} for {b}: '
                                            f'a growth by {ratio:.1f} for a doubled size (quadratic growth gives 4)'})
    return problems


def ram_call_time(k):
    """CPU seconds of one RAM-cached call behind k diamond layers (finding F4b: the key is hashed as a tree)"""
    desc, field, arg = family('diamond-ram', k, None)
    b = Builder(SymWorld())
    fn = b.layer(desc)._compile(field)
    t = time.process_time()
    fn(arg)
    return time.process_time() - t
