"""Uninterpreted user functions: calling `f` returns the term App(f, args) and is logged."""
from dataclasses import dataclass


@dataclass(frozen=True)
class App:
    f: str
    pos: tuple
    kw: tuple  # ((name, value), ...) sorted by name

    def __repr__(self):
        args = [repr(x) for x in self.pos] + [f'{k}={v!r}' for k, v in self.kw]
        return f'{self.f}({", ".join(args)})'


@dataclass(frozen=True)
class Imp:
    f: str
    serial: int
    pos: tuple
    kw: tuple

    def __repr__(self):
        args = [repr(x) for x in self.pos] + [f'{k}={v!r}' for k, v in self.kw]
        return f'{self.f}#{self.serial}({", ".join(args)})'


class UserFault(Exception):
    def __init__(self, name):
        super().__init__(name)
        self.name = name


class SymWorld:
    """The registry of symbolic functions of one case, their call log and fault schedule."""

    def __init__(self):
        self.log = []
        self.serial = 0
        self.fail_at = set()
        self.fns = {}
        self.names = {}  # id(function object) -> name
        self.impure = set()
        self.consts = {}  # name -> constant result
        self.tables = {}  # name -> {args tuple: result}; other arguments give None

    def fn(self, name, impure=False, params=None):
        """A function object named `name`. `params`: explicit parameter names (for the interface layer)."""
        key = (name, tuple(params) if params is not None else None)
        if key in self.fns:
            return self.fns[key]
        world = self
        if impure:
            self.impure.add(name)

        def call(pos, kw):
            k = world.serial
            world.serial += 1
            kwt = tuple(sorted(kw.items()))
            world.log.append((name, tuple(pos), kwt))
            if k in world.fail_at:
                raise UserFault(name)
            if name in world.consts:
                return world.consts[name]
            if name in world.tables:
                return world.tables[name].get(tuple(pos))
            if name in world.impure:
                return Imp(name, k, tuple(pos), kwt)
            return App(name, tuple(pos), kwt)

        if params is None:
            def f(*pos, **kw):
                return call(pos, kw)
        else:
            src = f'def f({", ".join(params)}):\n    return call(({"".join(p + ", " for p in params)}), {{}})\n'
            scope = {'call': call}
            exec(src, scope)
            f = scope['f']
        # registered under a stable importable name: persistent digests (tarn pickles functions that can be looked
        # up by module and qualname by reference) then depend on the symbolic name only, not on the harness' state
        from . import symfns
        mangled = 'sf_' + ''.join(c if c.isalnum() else f'_{ord(c):x}_' for c in name) + \
            ('' if params is None else '__' + '_'.join(params))
        f.__name__ = f.__qualname__ = mangled
        f.__module__ = symfns.__name__
        setattr(symfns, mangled, f)
        self.fns[key] = f
        self.names[id(f)] = name
        return f

    def name_of(self, obj):
        return self.names.get(id(obj))

    def mark(self):
        return len(self.log)

    def since(self, mark):
        return self.log[mark:]
