"""Uninterpreted user functions: calling `f` returns the term App(f, args) and is logged."""
from dataclasses import dataclass


class App:
    """the result of an uninterpreted pure function; hashable, with a cached hash (terms share sub-terms: hashing
    them as trees would be exponential in the depth of a pipeline)"""
    __slots__ = ('f', 'pos', 'kw', '_h')

    def __init__(self, f, pos, kw):
        object.__setattr__(self, 'f', f)
        object.__setattr__(self, 'pos', tuple(pos))
        object.__setattr__(self, 'kw', tuple(kw))
        object.__setattr__(self, '_h', None)

    def __setattr__(self, k, v):
        raise AttributeError('immutable')

    def _key(self):
        return (type(self).__name__, self.f, self.pos, self.kw)

    def __hash__(self):
        if self._h is None:
            object.__setattr__(self, '_h', hash(self._key()))
        return self._h

    def __eq__(self, other):
        if self is other:
            return True
        if type(other) is not type(self):
            return False
        try:
            if hash(self) != hash(other):
                return False
        except TypeError:       # a term over an unhashable value (a list, a dict): compared structurally
            pass
        return self._key() == other._key()

    def __reduce__(self):
        return (type(self), (self.f, self.pos, self.kw))

    def __repr__(self):
        args = [repr(x) for x in self.pos] + [f'{k}={v!r}' for k, v in self.kw]
        return f'{self.f}({", ".join(args)})'


class Imp(App):
    """the result of an impure function: tagged by the serial number of the invocation"""
    __slots__ = ('serial',)

    def __init__(self, f, serial, pos, kw):
        App.__init__(self, f, pos, kw)
        object.__setattr__(self, 'serial', serial)

    def _key(self):
        return ('Imp', self.f, self.serial, self.pos, self.kw)

    def __reduce__(self):
        return (Imp, (self.f, self.serial, self.pos, self.kw))

    def __repr__(self):
        args = [repr(x) for x in self.pos] + [f'{k}={v!r}' for k, v in self.kw]
        return f'{self.f}#{self.serial}({", ".join(args)})'


class UserFault(Exception):
    def __init__(self, name):
        super().__init__(name)
        self.name = name


# the injected failure is an instance of one of these classes (chosen by the serial number of the failing call): whatever
# class a user function raises - also one the library uses for its own control flow - must reach the caller unchanged
class UserFaultStop(UserFault, StopIteration):
    pass


class UserFaultKey(UserFault, KeyError):
    pass


class UserFaultAssert(UserFault, AssertionError):
    pass


class UserFaultValue(UserFault, ValueError):
    pass


FAULT_CLASSES = [UserFault, UserFaultStop, UserFaultKey, UserFault, UserFaultAssert, UserFaultValue, UserFaultStop]


class SymWorld:
    """The registry of symbolic functions of one case, their call log and fault schedule."""

    def __init__(self):
        self.log = []
        self.serial = 0
        self.fail_at = set()
        self.fault_class = None   # None: by the serial number of the failing call
        self.fns = {}
        self.names = {}  # id(function object) -> name
        self.impure = set()
        self.consts = {}  # name -> constant result
        self.tables = {}  # name -> {args tuple: result}; other arguments give None

    def fn(self, name, impure=False, params=None):
        """A function object named `name`. `params`: explicit parameter names (for the interface layer)."""
        key = (name, tuple(params) if params is not None else None)
        if key in self.fns:
            return self.fns[key]
        world = self
        if impure:
            self.impure.add(name)

        def call(pos, kw):
            k = world.serial
            world.serial += 1
            kwt = tuple(sorted(kw.items()))
            world.log.append((name, tuple(pos), kwt))
            if k in world.fail_at:
                raise (world.fault_class or FAULT_CLASSES[k % len(FAULT_CLASSES)])(name)
            if name in world.consts:
                c = world.consts[name]
                return list(c) if isinstance(c, list) else c      # a function that builds a list returns a new list every time
            if name in world.tables:
                return world.tables[name].get(tuple(pos))
            if name in world.impure:
                return Imp(name, k, tuple(pos), kwt)
            return App(name, tuple(pos), kwt)

        if params is None:
            def f(*pos, **kw):
                return call(pos, kw)
        else:
            src = f'def f({", ".join(params)}):\n    return call(({"".join(p + ", " for p in params)}), {{}})\n'
            scope = {'call': call}
            exec(src, scope)
            f = scope['f']
        # registered under a stable importable name: persistent digests (tarn pickles functions that can be looked
        # up by module and qualname by reference) then depend on the symbolic name only, not on the harness' state
        from . import symfns
        mangled = 'sf_' + ''.join(c if c.isalnum() else f'_{ord(c):x}_' for c in name) + \
            ('' if params is None else '__' + '_'.join(params))
        f.__name__ = f.__qualname__ = mangled
        f.__module__ = symfns.__name__
        setattr(symfns, mangled, f)
        if name.startswith('W:'):
            # a functools.wraps-style decorator around the function `name[2:]`: another function, same `__wrapped__`
            f.__wrapped__ = self.fn(name[2:], params=params)
        self.fns[key] = f
        self.names[id(f)] = name
        return f

    def name_of(self, obj):
        return self.names.get(id(obj))

    def mark(self):
        return len(self.log)

    def since(self, mark):
        return self.log[mark:]
