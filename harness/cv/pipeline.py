"""Build real connectome layers and pipelines from abstract (JSON-able) descriptions, through the public API.

Layer descriptions
------------------
field spec  : {"f": symbolic function name, "args": [parameter names], "opt": bool, "impure": bool,
               "byvalue": bool, "meta": bool}
source      : {"k": "source", "cls": name, "ids": [...], "fields": {name: spec}, "params": {_p: spec},
               "cargs": {arg: value}, "defaults": {arg: value}}
transform   : {"k": "transform", "cls": name, "fields": {...}, "inverses": {...}, "params": {...}, "cargs": {...},
               "defaults": {...}, "inherit": [names] | true | null, "exclude": [names] | null}
apply       : {"k": "apply", "fns": {name: symbolic function name}}
ram         : {"k": "ram", "names": [..] | null, "size": n | null, "impure": bool}
disk        : {"k": "disk", "names": [..], "root": idx, "impure": bool}
columns     : {"k": "columns", "names": [..], "root": idx, "shard": null | int | float, "impure": bool}
filter      : {"k": "filter", "f": name, "args": [...]} | {"k": "keep", "ids": [...]} | {"k": "drop", "ids": [...]}
check_ids   : {"k": "check_ids"}
groupby     : {"k": "groupby", "by": name | [names] | {"f": name, "args": [...]}}
merge       : {"k": "merge", "parts": [pipeline, ...]}
join        : {"k": "join", "left": pipeline, "right": pipeline, "on": [names], "how": "inner"|...}
chain       : {"k": "chain", "flavour": "chain" | "lazy" | "rshift", "layers": [layer, ...]}
pipeline    : a layer
"""
import os
from . import paths
from .sym import SymWorld


def ids_form(d):
    """the ids of Filter.keep / Filter.drop as the kind of iterable the description asks for (`Iterable[str]`)"""
    ids, form = list(d['ids']), d.get('form', 'list')
    if form == 'tuple':
        return tuple(ids)
    if form == 'set':
        return set(ids)
    if form == 'iter':
        return iter(ids)
    if form == 'gen':
        return (i for i in ids)
    if form == 'dupes':
        return ids + ids[:1]
    if form == 'keys':
        return dict.fromkeys(ids).keys()
    return ids


class Builder:
    def __init__(self, world=None, roots=None):
        self.c = paths.use_repo()
        self.world = world or SymWorld()
        self.classes = {}
        self.roots = roots or []      # directories for disk / column caches
        self.ram_layers = []          # CacheToRam instances created (for `clear`)

    # ---- symbolic functions
    def fn(self, spec, owner, name):
        fname = spec.get('f') or f'{owner}.{name}'
        if 'const' in spec:
            self.world.consts[fname] = _to_py(spec['const'])
        if 'table' in spec:
            self.world.tables[fname] = {tuple(_to_py(k)): _to_py(v) for k, v in spec['table']}
        f = self.world.fn(fname, impure=bool(spec.get('impure')), params=list(spec.get('args', [])))
        if spec.get('silent'):
            from connectome.interface.nodes import Silent
            f.__annotations__ = {p: Silent for p in spec['silent']}
        if spec.get('outargs'):
            # `def z(y: Output)`: the argument is the layer's own output `y`, not the input of that name
            from connectome.interface.nodes import Output
            f.__annotations__ = dict(getattr(f, '__annotations__', {}), **{p: Output for p in spec['outargs']})
        return f

    def decorate(self, f, spec):
        from connectome import impure, optional, meta, inverse
        from connectome.interface.complex_edges import hash_by_value
        if spec.get('kwbind') or spec.get('posbind'):
            # explicit factory with keyword bindings: Function(f, 'a', name='b')
            from connectome.interface.edges import Function
            from connectome.interface.nodes import Silent
            # `kworder`: the order in which the keyword bindings are written down; `kwsilent` / `possilent`: bindings wrapped in Silent
            order = spec.get('kworder') or list(spec.get('kwbind', {}))
            kws = {k: (Silent(spec['kwbind'][k]) if k in spec.get('kwsilent', []) else spec['kwbind'][k]) for k in order}
            pos = [Silent(a) if i in spec.get('possilent', []) else a for i, a in enumerate(spec.get('posbind', []))]
            f = Function(f, *pos, **kws)
        if spec.get('combined'):
            # hash_by_value(prepare=..., compute=...): the intermediate value is hashed by value; `prepare` may be @impure
            from .codec import atom_name
            base = atom_name(f, self.world) or 'combined'
            pf = self.world.fn(base + '#prepare', impure=spec['combined'] == 'impure', params=list(spec.get('args', [])))
            cf = self.world.fn(base + '#compute', params=['v'])
            f = hash_by_value(prepare=impure(pf) if spec['combined'] == 'impure' else pf, compute=cf)
            if spec.get('opt'):
                f = optional(f)
            return f
        if spec.get('byvalue') and not spec.get('byvalue_outer'):
            f = hash_by_value(f)
        if spec.get('impure'):
            f = impure(f)
        if spec.get('byvalue') and spec.get('byvalue_outer'):
            f = hash_by_value(f)      # @hash_by_value @impure def f
        if spec.get('inv'):
            f = inverse(f)
        if spec.get('opt'):
            f = optional(f)
        if spec.get('meta'):
            f = meta(f)
        return f

    def make_class(self, d):
        from connectome import Source, Transform
        from connectome.interface.metaclasses import APIMeta
        from connectome.utils import MultiDict
        import json as _json
        # one class per *definition* (not per name: two descriptions may reuse a name with other contents)
        key = d['cls']
        ckey = _json.dumps({k: v for k, v in d.items() if k != 'cargs'}, sort_keys=True, default=str)
        if ckey in self.classes:
            return self.classes[ckey]
        base = Source if d['k'] == 'source' else Transform
        if d['k'] == 'split':
            from connectome import Split
            base = Split
        ns = MultiDict()
        ns['__module__'] = 'cv_generated'
        ns['__qualname__'] = key
        ann = {}
        for arg in d.get('cargs', {}):
            if arg not in d.get('defaults', {}):
                ann['_' + arg] = int
        for arg, v in d.get('defaults', {}).items():
            ns['_' + arg] = _to_py(v)
        if ann:
            ns['__annotations__'] = ann
        if d['k'] == 'source':
            ids = tuple(d['ids'])
            if getattr(self, 'ids_wrap', None):
                ids = tuple(self.ids_wrap(i) for i in ids)      # ids as objects of the harness' own key class
            from connectome import meta
            fname = f'{key}.ids' + ('' if not getattr(self, 'ids_by_value', True) else '[' + ','.join(map(str, ids)) + ']')
            # `ids_list`: the ids function returns a (new, unsorted as given) list instead of a tuple
            self.world.consts[fname] = list(ids) if d.get('ids_list') else ids
            idsf = self.world.fn(fname, params=[])
            if d.get('ids_impure'):
                # an id listing that may change between calls (a directory scan)
                from connectome import impure as _impure
                idsf = _impure(idsf)
                self.ids_fn = getattr(self, 'ids_fn', {})
                self.ids_fn[key] = fname
            ns['ids'] = meta(idsf)
        else:
            if d.get('inherit') is not None:
                if d.get('inherit_set') and not isinstance(d['inherit'], bool):
                    # the names as a SET object that its owner keeps using (and changing) after the class statement
                    ns['__inherit__'] = mutable_inherit = set(d['inherit'])
                else:
                    ns['__inherit__'] = d['inherit'] if isinstance(d['inherit'], bool) else \
                        (d['inherit'][0] if d.get('inherit_str') and len(d['inherit']) == 1 else tuple(d['inherit']))
            if d.get('exclude') is not None:
                ns['__exclude__'] = d['exclude'][0] if d.get('exclude_str') and len(d['exclude']) == 1 else tuple(d['exclude'])
        if d['k'] == 'split':
            ns['__split__'] = self.fn(d['split'], key, '__split__')
        for name, spec in d.get('params', {}).items():
            ns[name] = self.decorate(self.fn(spec, key, name), spec)
        for name, spec in d.get('fields', {}).items():
            ns[name] = self.decorate(self.fn(spec, key, name), spec)
        for name, spec in d.get('inverses', {}).items():
            ns[name] = self.decorate(self.fn(spec, key + '.inv', name), dict(spec, inv=True))
        cls = APIMeta(key, (base,), ns)
        if d.get('inherit_set') and not isinstance(d.get('inherit'), bool) and d.get('inherit') is not None:
            # what happens to the caller's set afterwards is none of the layer's business
            extra = [x for x in ('a', 'b', 'c', 'd', 'e', 'ab', 'id') if x not in d['inherit']]
            mutable_inherit.update(extra[:2])
            mutable_inherit.discard(d['inherit'][0])
        self.classes[ckey] = cls
        return cls

    # ---- layers
    def layer(self, d):
        # opt-in: equal descriptions of these kinds are ONE layer object, reused in every pipeline the builder makes
        # (layer objects may be used in several pipelines, C09; the suites that turn this on check that history does not matter)
        pool = getattr(self, 'object_pool', None)
        if pool is not None and d['k'] in ('transform', 'apply', 'ram', 'filter', 'groupby', 'check_ids', 'keep', 'drop'):
            import json as _json
            key = _json.dumps(d, sort_keys=True, default=str)
            if key not in pool:
                pool[key] = self._layer(d)
            return pool[key]
        return self._layer(d)

    def _layer(self, d):
        c = self.c
        k = d['k']
        if k in ('source', 'transform', 'split'):
            cls = self.make_class(d)
            return cls(**{a: _to_py(v) for a, v in d.get('cargs', {}).items()})
        if k == 'apply' and d.get('partial'):
            # ONE callable object that is pickled by value (a functools.partial) behind several edges
            import functools
            shared = functools.partial(self.world.fn(d['partial'], params=['v']))
            return c.Apply(**{n: shared for n in d['fns']})
        if k == 'apply':
            return c.Apply(**{n: self.world.fn(f, params=[n]) for n, f in d['fns'].items()})
        if k == 'ram':
            layer = c.CacheToRam(d.get('names'), size=d.get('size'), impure=bool(d.get('impure')))
            self.ram_layers.append(layer)
            return layer
        if k == 'disk' and d.get('algo'):
            return self._disk_algo(d)
        if k == 'disk':
            if d.get('json_labels'):
                self._init_roots(self.roots[d['root']], labels='JsonLabels')
            return c.CacheToDisk.simple(*d['names'], root=self.roots[d['root']], labels=d.get('labels')) if not d.get('impure') else \
                self._disk_impure(d)
        if k == 'columns':
            return self._columns(d)
        if k == 'filter':
            return c.Filter(self.fn(d, 'filter', d['f']))
        if k == 'keep':
            return c.Filter.keep(ids_form(d))
        if k == 'drop':
            return c.Filter.drop(ids_form(d))
        if k == 'check_ids':
            from connectome.layers.check_ids import CheckIds
            return CheckIds()
        if k == 'groupby':
            by = d['by']
            if isinstance(by, dict):
                by = self.fn(by, 'groupby', by['f'])
            return c.GroupBy(by)
        if k == 'merge':
            return c.Merge(*[self.layer(p) for p in d['parts']])
        if k == 'join':
            if d.get('key_prefix'):
                from connectome.layers.join import _maybe_to_hash_id
                prefix = d['key_prefix']
                return c.Join(self.layer(d['left']), self.layer(d['right']), d['on'], how=d.get('how', 'inner'),
                              to_key=lambda values: prefix + _maybe_to_hash_id(values))
            return c.Join(self.layer(d['left']), self.layer(d['right']), d['on'], how=d.get('how', 'inner'))
        if k == 'chain':
            layers = [self.layer(x) for x in d['layers']]
            fl = d.get('flavour', 'chain')
            if fl == 'lazy':
                return c.LazyChain(*layers)
            if fl == 'rshift':
                out = layers[0]
                for x in layers[1:]:
                    out = out >> x
                return out
            return c.Chain(*layers)
        raise ValueError(k)

    def _init_roots(self, root, labels=None):
        from tarn.config import StorageConfig, init_storage
        os.makedirs(root, exist_ok=True)
        for name in ('index', 'storage'):
            p = os.path.join(root, name)
            if not os.path.exists(os.path.join(p, 'config.yml')):
                init_storage(StorageConfig(hash='sha256', levels=[1, 31], labels=labels), p)

    def _disk_algo(self, d):
        """CacheToDisk on a storage the user configured with another digest algorithm (blake2s, sha512, ...)"""
        from tarn import DiskDict, HashKeyStorage
        from tarn.config import StorageConfig, init_storage
        from connectome.serializers import ChainSerializer, JsonSerializer, PickleSerializer
        root = self.roots[d['root']]
        index, storage = os.path.join(root, 'index'), os.path.join(root, 'storage')
        for p in (index, storage):
            if not os.path.exists(os.path.join(p, 'config.yml')):
                os.makedirs(root, exist_ok=True)
                init_storage(StorageConfig(hash=d['algo'], levels=[1, -1]), p)
        return self.c.CacheToDisk(index, HashKeyStorage(DiskDict(storage)), ChainSerializer(JsonSerializer(), PickleSerializer()), d['names'])

    def _disk_impure(self, d):
        c = self.c
        layer = c.CacheToDisk.simple(*d['names'], root=self.roots[d['root']])
        layer.impure = True
        return layer

    def _columns(self, d):
        from tarn import DiskDict, HashKeyStorage
        from tarn.config import StorageConfig, init_storage
        from connectome.serializers import ChainSerializer, JsonSerializer, PickleSerializer
        root = self.roots[d['root']]
        index, storage = os.path.join(root, 'index'), os.path.join(root, 'storage')
        for p in (index, storage):
            if not os.path.exists(os.path.join(p, 'config.yml')):
                os.makedirs(root, exist_ok=True)
                init_storage(StorageConfig(hash='sha256', levels=[1, 31], labels='JsonLabels' if d.get('json_labels') else None), p)
        return self.c.CacheColumns(index, HashKeyStorage(DiskDict(storage)),
                                   ChainSerializer(JsonSerializer(), PickleSerializer()), d['names'],
                                   shard_size=d.get('shard'), impure=bool(d.get('impure')))


def _to_py(j):
    from .real_vm import json_to_py
    return json_to_py(j)


def observe(builder, layer, names, inputs=None, tuples=(), hashes=False):
    """Observe a built pipeline through its public API: dir, and for every name of the pool: the signature,
    the symbolic value on symbolic inputs (or the exception class).  `inputs`: {parameter name: value}."""
    from .codec import val_to_json, exc_name
    w = builder.world
    out = {}
    try:
        out['dir'] = sorted(dir(layer))
    except Exception as e:
        out['dir_err'] = exc_name(e)
        out['dir_err_msg'] = str(e)
        # an unusable pipeline stays unusable: asking again (a swallowed first error, tab completion) raises again
        try:
            again = sorted(dir(layer))
            out['dir_second'] = again
        except Exception as e2:
            out['dir_second'] = 'ERR ' + exc_name(e2)
        for name in list(names)[:3]:
            try:
                layer._compile(name)
                out.setdefault('compiled_after_error', []).append(name)
            except Exception:
                pass
    fields = {}
    for name in list(names) + [tuple(t) for t in tuples]:
        key = name if isinstance(name, str) else '(' + ','.join(name) + ')'
        try:
            f = layer._compile(name)
        except Exception as e:
            fields[key] = {'err': exc_name(e)}
            continue
        import inspect
        try:
            sig = list(inspect.signature(f).parameters)
        except Exception as e:
            fields[key] = {'err': 'signature:' + exc_name(e)}
            continue
        rec = {'sig': sig}
        if getattr(f, '__name__', '') == 'identity' and not hasattr(f, 'get_hash'):
            rec['identity'] = True
            sig = [key]
        kwargs = {p: (inputs or {}).get(p, '$' + p) for p in sig}
        mark = w.mark()
        try:
            v = f(**kwargs) if not rec.get('identity') else f(kwargs[key])
            rec['value'] = val_to_json(v, w)
        except Exception as e:
            rec['value_err'] = exc_name(e)
        rec['calls'] = len(w.since(mark))
        if hashes and hasattr(f, 'get_hash'):
            from .codec import hash_to_json
            try:
                h, _ = f.get_hash(*[kwargs[p] for p in sig])
                rec['hash'] = hash_to_json(h.value, w)
            except Exception as e:
                rec['hash_err'] = exc_name(e)
        fields[key] = rec
    out['fields'] = fields
    # attribute access: a property (meta field) is called at once, a method is returned as a function
    attrs = {}
    for name in out.get('dir', []):
        try:
            a = getattr(layer, name)
            attrs[name] = 'callable' if callable(a) and hasattr(a, '__signature__') or getattr(a, '__name__', '') == 'identity' \
                else 'value:' + canon_short(a, w)
        except Exception as e:
            attrs[name] = 'err:' + exc_name(e)
    out['attrs'] = attrs
    return out


def canon_short(v, w):
    from .codec import val_to_json, canon
    try:
        return canon(val_to_json(v, w))[:120]
    except Exception:
        return type(v).__name__
