"""Build the Lean project, audit sources and axioms of the property theorems."""
import fcntl, glob, hashlib, json, os, re, subprocess, time
from . import paths

ALLOWED_AXIOMS = {'propext', 'Classical.choice', 'Quot.sound'}
FORBIDDEN = re.compile(r'\bsorry\b|\badmit\b|^\s*axiom\s|native_decide|bv_decide|implemented_by|\bunsafe\s|maxHeartbeats\s+0')


def _strip_comments(src):
    src = re.sub(r'/-.*?-/', lambda m: '\n' * m.group(0).count('\n'), src, flags=re.S)
    return '\n'.join(line.split('--', 1)[0] for line in src.split('\n'))


def lean_sources():
    files = sorted(glob.glob(os.path.join(paths.LEAN, 'CM', '**', '*.lean'), recursive=True))
    files += [os.path.join(paths.LEAN, 'Driver.lean'), os.path.join(paths.LEAN, 'CM.lean'),
              os.path.join(paths.LEAN, 'lakefile.toml')]
    return [f for f in files if os.path.exists(f)]


def sources_digest():
    h = hashlib.sha256()
    for f in lean_sources():
        h.update(f.encode())
        h.update(open(f, 'rb').read())
    return h.hexdigest()[:20]


def grep_forbidden():
    hits = []
    for f in lean_sources():
        if not f.endswith('.lean'):
            continue
        for i, line in enumerate(_strip_comments(open(f).read()).split('\n'), 1):
            if FORBIDDEN.search(line):
                hits.append(f'{os.path.relpath(f, paths.LEAN)}:{i}: {line.strip()}')
    return hits


class Lock:
    def __init__(self, name):
        os.makedirs(paths.SCRATCH, exist_ok=True)
        self.path = os.path.join(paths.SCRATCH, name + '.lock')

    def __enter__(self):
        self.f = open(self.path, 'w')
        fcntl.flock(self.f, fcntl.LOCK_EX)

    def __exit__(self, *a):
        fcntl.flock(self.f, fcntl.LOCK_UN)
        self.f.close()


def build(targets=None):
    """`lake build`; returns (ok, output)."""
    cmd = ['lake', 'build'] + (targets or [])
    p = subprocess.run(cmd, cwd=paths.LEAN, stdout=subprocess.PIPE, stderr=subprocess.STDOUT, timeout=3000)
    return p.returncode == 0, p.stdout.decode()


def prop_modules(pid):
    """CM/Props/<pid>.lean and its continuation files CM/Props/<pid><Suffix>.lean (e.g. C01Tuple.lean: theorems of the property that
    need modules which themselves import CM.Props.<pid>)"""
    d = os.path.join(paths.LEAN, 'CM', 'Props')
    return sorted(f[:-5] for f in os.listdir(d) if re.fullmatch(re.escape(pid) + r'([A-Z][A-Za-z0-9]*)?\.lean', f))


def theorems_of(pid):
    """Names of the property theorems (and the number of non-vacuity examples) in CM/Props/<pid>*.lean."""
    path = os.path.join(paths.LEAN, 'CM', 'Props', f'{pid}.lean')
    if not os.path.exists(path):
        return [], 0, path
    names, examples = [], 0
    for mod in prop_modules(pid):
        src = _strip_comments(open(os.path.join(paths.LEAN, 'CM', 'Props', mod + '.lean')).read())
        ns = re.findall(r'^namespace\s+(\S+)', src, flags=re.M)
        prefix = '.'.join(ns[:1]) + '.' if ns else ''
        names += [prefix + n for n in re.findall(r'^\s*(?:protected\s+)?theorem\s+(\S+)', src, flags=re.M)]
        examples += len(re.findall(r'^\s*example\b', src, flags=re.M))
    return names, examples, path


def audit(pid):
    """Build everything, then print the axioms of every property theorem of `pid`.
    Returns dict(ok, built, obligations, discharged, theorems={name: [axioms]}, problems=[...])."""
    with Lock('lake'):
        os.makedirs(paths.SCRATCH, exist_ok=True)
        digest = sources_digest()
        cache = os.path.join(paths.SCRATCH, f'audit-{pid}-{digest}.json')
        if os.path.exists(cache) and os.path.exists(paths.DRIVER):
            return json.load(open(cache))
        t0 = time.time()
        res = {'ok': False, 'built': False, 'obligations': 0, 'discharged': 0, 'theorems': {}, 'problems': [],
               'digest': digest}
        hits = grep_forbidden()
        if hits:
            res['problems'] += ['forbidden construct: ' + h for h in hits]
        ok, out = build()
        res['built'] = ok
        if not ok:
            res['problems'].append('lake build failed:\n' + out[-3000:])
            return res
        names, examples, path = theorems_of(pid)
        if not names:
            res['problems'].append(f'no property theorems found in {path}')
            return res
        adir = os.path.join(paths.LEAN, '.lake', 'audit')
        os.makedirs(adir, exist_ok=True)
        afile = os.path.join(adir, f'{pid}.lean')
        with open(afile, 'w') as f:
            for mod in prop_modules(pid):
                f.write(f'import CM.Props.{mod}\n')
            for n in names:
                f.write(f'#print axioms {n}\n')
        p = subprocess.run(['lake', 'env', 'lean', afile], cwd=paths.LEAN, stdout=subprocess.PIPE,
                           stderr=subprocess.STDOUT, timeout=1200)
        text = p.stdout.decode()
        if p.returncode != 0:
            res['problems'].append('axiom audit failed:\n' + text[-2000:])
            return res
        flat = re.sub(r'\s+', ' ', text)
        for n in names:
            m = re.search(r"'" + re.escape(n) + r"' (does not depend on any axioms|depends on axioms: \[([^\]]*)\])", flat)
            if not m:
                res['problems'].append(f'no axiom report for {n}')
                continue
            axioms = [a.strip() for a in (m.group(2) or '').split(',') if a.strip()]
            res['theorems'][n] = axioms
            bad = [a for a in axioms if a not in ALLOWED_AXIOMS]
            if bad:
                res['problems'].append(f'{n} depends on {bad}')
        res['obligations'] = len(names) + examples
        res['discharged'] = sum(1 for n in names if n in res['theorems']
                                and all(a in ALLOWED_AXIOMS for a in res['theorems'][n])) + examples
        res['ok'] = not res['problems']
        res['audit_s'] = round(time.time() - t0, 1)
        if res['ok']:
            json.dump(res, open(cache, 'w'))
        return res


def recheck(pid):
    """Thorough tier: re-check the compiled property module and everything it imports with `leanchecker`, the toolchain's
    independent re-checker of .olean files.  Returns (ok, text); cached by the digest of the Lean sources."""
    with Lock('lake'):
        digest = sources_digest()
        cache = os.path.join(paths.SCRATCH, f'leanchecker-{pid}-{digest}.json')
        if os.path.exists(cache):
            return tuple(json.load(open(cache)))
        t0 = time.time()
        p = subprocess.run(['lake', 'env', 'leanchecker'] + [f'CM.Props.{m}' for m in prop_modules(pid)], cwd=paths.LEAN, stdout=subprocess.PIPE,
                           stderr=subprocess.STDOUT, timeout=3000)
        out = (p.returncode == 0, f'leanchecker CM.Props.{pid}: exit {p.returncode} in {round(time.time() - t0, 1)} s ' + p.stdout.decode()[-500:])
        if out[0]:
            json.dump(list(out), open(cache, 'w'))
        return out
