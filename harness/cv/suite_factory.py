"""S-FACTORY: the container `GraphFactory` + `ReversibleContainer` build for a layer written as a class body (interface/factory.py,
containers/reversible.py) against the node-level model `CM.Model.Factory`, edge by edge and up to the identities of the nodes.

Layers: Sources and Transforms with fields, private parameters (functions and constructor arguments with defaults), inverse fields,
`@optional` / `@meta` marks, `__inherit__` (True / names / a bare string) and `__exclude__`."""
import hashlib, json, random
from . import driver, paths
from .bagrec import Recorder, Unsupported as RecUnsupported
from .codec import canon, exc_name
from .extract import Extractor, Unsupported
from .gen_pipe import gen_transform, gen_source, POOL
from .pipeline import Builder
from .sym import SymWorld


def gen_layer(rng, idx):
    r = rng.random()
    if r < 0.07:
        names = rng.sample(POOL, rng.choice([1, 2, 3]))
        return {'k': 'apply', 'fns': {n: f'ap{idx}.{n}' for n in names}}
    if r < 0.25:
        d = gen_source(rng, idx)
    else:
        d = gen_transform(rng, idx, p_opt=0.35)
    # inverse fields: functions of backward inputs and private parameters
    if d['k'] == 'transform' and rng.random() < 0.45:
        inv = {}
        for n in rng.sample(POOL, rng.choice([1, 1, 2])):
            args = [n] + ([rng.choice([m for m in POOL if m != n])] if rng.random() < 0.2 else [])
            args += [p for p in d.get('params', {}) if rng.random() < 0.4]
            if (d.get('cargs') or d.get('defaults')) and rng.random() < 0.3:
                args.append('_k')
            inv[n] = {'args': args}
        d['inverses'] = inv
    # explicit edge factories: `x = Function(f, 'a', '_p')` binds the user function's parameters to names given as strings
    # (private names are parameters / constructor arguments of the layer exactly as in a signature)
    for group in ('fields', 'params'):
        for n, spec in sorted(d.get(group, {}).items()):
            if spec.get('args') and not spec.get('kwbind') and not spec.get('combined') and rng.random() < 0.15:
                spec['posbind'] = list(spec['args'])
                spec['args'] = [f'u{i}' for i in range(len(spec['posbind']))]
    # an argument annotated `Output`: `def z(y: Output)` reads the layer's own output `y` (a field defined in the same class body)
    if d['k'] == 'transform' and len(d.get('fields', {})) >= 2 and rng.random() < 0.25:
        names = sorted(d['fields'])
        z, y = rng.sample(names, 2)
        spec = d['fields'][z]
        if not spec.get('posbind') and not spec.get('kwbind') and not spec.get('combined') and y not in spec.get('args', []):
            spec['args'] = [y] + list(spec.get('args', []))
            spec['outargs'] = [y]
    # the malformed stream (about one layer in six): a private name that nothing defines, two key arguments or a redefined `id`
    # in a Source, `__inherit__` together with `__exclude__`, a listed name that the layer defines itself, parameters that need
    # each other
    r = rng.random()
    if r < 0.04 and d.get('fields'):
        f = rng.choice(sorted(d['fields']))
        d['fields'][f]['args'] = d['fields'][f]['args'] + ['_undefined']
    elif r < 0.07 and d['k'] == 'source' and d.get('fields'):
        f = rng.choice(sorted(d['fields']))
        d['fields'][f]['args'] = ['i', 'j']
    elif r < 0.09 and d['k'] == 'source':
        d['fields']['id'] = {'args': ['i']}
    elif r < 0.12 and d['k'] == 'transform':
        d['inherit'] = d.get('inherit') if d.get('inherit') else rng.choice([True, ['a']])
        d['exclude'] = rng.sample(POOL, 1)
        d.pop('inherit_str', None)
    elif r < 0.15 and d['k'] == 'transform' and d.get('fields'):
        d.pop('exclude', None)
        d['inherit'] = [rng.choice(sorted(d['fields']))] + rng.sample(POOL, 1)
        d.pop('inherit_str', None)
    elif r < 0.17 and d['k'] == 'transform':
        d['params'] = dict(d.get('params', {}), _p={'args': ['_q']}, _q={'args': ['_p', 'a']})
    return d


def model_desc(b, d):
    """the description the model is given: the Source's `ids` is an ordinary meta field computed by a function without arguments"""
    m = json.loads(json.dumps(d))
    for group in ('fields', 'params'):
        for spec in m.get(group, {}).values():
            if spec.get('posbind'):
                spec['args'] = spec.pop('posbind')        # the names the edge is bound to
            if spec.get('outargs'):
                spec['args'] = [('out:' + a if a in spec['outargs'] else a) for a in spec['args']]
    if d['k'] == 'apply':
        # `Apply(name=f, ...)` builds the container of a Transform that inherits everything and redefines `name` as f(name)
        return {'k': 'transform', 'cls': 'Apply', 'fields': {n: {'args': [n], 'f': f} for n, f in d['fns'].items()}, 'params': {},
                'cargs': {}, 'defaults': {}, 'inherit': True}
    if d['k'] == 'source':
        ids = tuple(d['ids'])
        fname = f'{d["cls"]}.ids' + ('' if not getattr(b, 'ids_by_value', True) else '[' + ','.join(map(str, ids)) + ']')
        m['fields'] = dict(m.get('fields', {}), ids={'args': [], 'f': fname, 'meta': True})
        m['ids'] = []
    return m


class _OpaqueEx(Extractor):
    """edges that carry a compiled graph of their own are opaque at the container level"""

    def edge(self, e):
        if type(e).__name__ == 'FilterEdge':
            return {'k': 'fn', 'f': '$FilterEdge', 'kw': [], 'silent': []}
        if type(e).__name__ in ('GroupMapping', 'GroupEdge', 'JoinMapping'):
            return {'k': 'fn', 'f': '$' + type(e).__name__, 'kw': [], 'silent': []}
        f = getattr(e, 'function', None)
        if type(e).__name__ == 'FunctionEdge' and getattr(f, '__module__', '') == 'connectome.layers.group' and f.__name__ == '<lambda>':
            return {'k': 'fn', 'f': '$sorted', 'kw': list(e.kw_names), 'silent': list(e.silent)}      # the new `ids`: `tuple(sorted(mapping))`
        if type(e).__name__ == 'FunctionEdge' and getattr(f, '__module__', '') == 'connectome.layers.join' and f.__name__ in ('key', 'ids'):
            arg = f.__closure__[0].cell_contents       # id_maker(index) / ids_maker(how)
            arg = getattr(arg, 'name', arg)
            return {'k': 'fn', 'f': f'${"id_maker" if f.__name__ == "key" else "ids_maker"}({arg})', 'kw': list(e.kw_names), 'silent': list(e.silent)}
        return super().edge(e)


def real_bag(world, layer, bag=None):
    """the real container in the JSON form of the model, with the edges spelled out"""
    bag = layer._container if bag is None else bag
    rec = Recorder()
    ex = _OpaqueEx(world)
    ids = {}

    def nid(n):
        if id(n) not in ids:
            ids[id(n)] = len(ids)
        return [ids[id(n)], n.name]
    d = {'inputs': [nid(n) for n in bag.inputs], 'outputs': [nid(n) for n in bag.outputs],
         'edges': [{'e': ex.edge(e.edge), 'ins': [nid(i) for i in e.inputs], 'out': nid(e.output)} for e in bag.edges],
         'virt': rec.nameset(bag.virtual), 'persistent': sorted(bag.persistent), 'optional': [nid(n) for n in bag.optional],
         'ctx': rec.ctx(bag.context, nid)}
    d['next'] = len(ids)
    return d


def etag(t):
    if t['k'] == 'ident':
        return 'ident'
    if t['k'] == 'fn':
        return 'fn:' + t['f'] + ':' + ','.join(t.get('kw', [])) + ':' + ','.join(map(str, t.get('silent', [])))
    if t['k'] == 'const':
        return 'const:' + canon(t['v'])
    if t['k'] == 'switch':
        return 'switch:' + canon(sorted(t['table'], key=lambda r: json.dumps(r[0])))
    if t['k'] == 'switch_missing':
        return 'switch_missing:' + str(t['index'])
    if t['k'] in ('impure', 'byvalue'):
        return t['k'] + '(' + etag(t['inner']) + ')'
    return t['k']        # a cache edge: every field has a storage of its own, the numbering is arbitrary


def canon_sem(b):
    """a container up to node identities: every node is the hash of (name, is input, edge, parents in order)"""
    incoming = {}
    multi = False
    for e in b['edges']:
        multi = multi or e['out'][0] in incoming
        incoming[e['out'][0]] = e
    inputs = {n[0] for n in b['inputs']}
    memo, onstack = {}, set()

    def sig(n):
        k = n[0]
        if k in memo:
            return memo[k]
        if k in onstack:
            return 'CYCLE'
        onstack.add(k)
        e = incoming.get(k)
        s = ('leaf', n[1], k in inputs) if e is None else ('node', n[1], k in inputs, etag(e['e']), [sig(i) for i in e['ins']])
        onstack.discard(k)
        memo[k] = hashlib.sha1(json.dumps(s).encode()).hexdigest()[:16]
        return memo[k]
    ns = lambda s: {'fin': sorted(s['fin'])} if 'fin' in s else {'cofin': sorted(s['cofin'])}
    c = b['ctx']
    ctx = c['k'] if c['k'] != 'bag' else ['bag', sorted([n[1], sig(n)] for n in c['inputs']), sorted([n[1], sig(n)] for n in c['outputs']),
                                          ns(c['inherit'])]
    return {'inputs': sorted([n[1], sig(n)] for n in b['inputs']), 'outputs': sorted([n[1], sig(n)] for n in b['outputs']),
            'edges': sorted([etag(e['e']), [sig(i) for i in e['ins']], sig(e['out'])] for e in b['edges']),
            'virt': ns(b['virt']), 'persistent': sorted(b['persistent']), 'optional': sorted([n[1], sig(n)] for n in b['optional']),
            'ctx': ctx, 'multi': multi}


def run_shard(args):
    seed, n = args
    paths.use_repo()
    recs, reqs, crecs, creqs = [], [], [], []
    stats = {'cache_bags': 0, 'layers': 0, 'sources': 0, 'with_inverses': 0, 'errors': {}, 'edges': 0, 'optional_nodes': 0, 'wf': 0}
    for c in range(n):
        rng = random.Random(seed * 48611 + c)
        d = gen_layer(rng, c % 7)
        world = SymWorld()
        b = Builder(world)
        try:
            layer = b.layer(d)
            real = {'ok': real_bag(world, layer)}
        except (Unsupported, RecUnsupported):
            continue
        except Exception as e:
            real = {'err': exc_name(e)}
        recs.append((d, real))
        reqs.append(model_desc(b, d))
        # a cache layer on top of this layer: the container `CacheToStorage._prepare_container` builds from the previous one
        if 'ok' in real and rng.random() < 0.5:
            prev = [n.name for n in layer._container.outputs]
            names = rng.choice([None, rng.sample(POOL + ['id', 'ids'], rng.randint(1, 3)), prev[:1]])
            try:
                cl = b.c.CacheToRam(names, size=rng.choice([None, 2]), impure=True)
                cbag = cl._prepare_container(layer._container)
                creal = {'ok': real_bag(world, None, cbag)}
            except Exception as e:
                creal = {'err': exc_name(e)}
            crecs.append(({'layer': d, 'names': names}, creal))
            creqs.append({'names': {'cofin': []} if names is None else {'fin': list(names)}, 'prev': prev})
    answers = driver.run_lines([{'op': 'factory', 'layers': reqs, 'caches': creqs}])[0] if reqs else {'outs': [], 'caches': []}
    bad = []
    if 'error' in answers:
        return stats, [{'desc': None, 'diff': answers['error']}]
    for (d, real), ans in zip(recs, answers['outs']):
        stats['layers'] += 1
        stats['sources'] += d['k'] == 'source'
        stats['with_inverses'] += bool(d.get('inverses'))
        if 'err' in real or 'err' in ans:
            k = real.get('err', 'ok')
            stats['errors'][k] = stats['errors'].get(k, 0) + 1
            if real.get('err') != ans.get('err'):
                bad.append({'desc': d, 'real': real.get('err', 'ok'), 'model': ans.get('err', 'ok')})
            continue
        stats['edges'] += len(real['ok']['edges'])
        stats['optional_nodes'] += len(real['ok']['optional'])
        stats['wf'] += bool(ans.get('wf'))
        a, m = canon_sem(real['ok']), canon_sem(ans['ok'])
        if a != m:
            keys = [k for k in a if a[k] != m[k]]
            bad.append({'desc': d, 'what': keys, 'real': {k: a[k] for k in keys[:2]}, 'model': {k: m[k] for k in keys[:2]}})
        elif not ans.get('wf') or not ans.get('acyclic'):
            bad.append({'desc': d, 'what': 'the model container of a layer is not well-formed (Bag.wfB / acyclicB)', 'wf': ans.get('wf')})
    for (cd, real), ans in zip(crecs, answers.get('caches', [])):
        stats['cache_bags'] += 1
        if 'err' in real or 'err' in ans:
            if real.get('err') != ans.get('err'):
                bad.append({'desc': cd, 'what': 'cache layer container', 'real': real.get('err', 'ok'), 'model': ans.get('err', 'ok')})
            continue
        a, m = canon_sem(real['ok']), canon_sem(ans['ok'])
        if a != m:
            keys = [k for k in a if a[k] != m[k]]
            bad.append({'desc': cd, 'what': ['cache layer container'] + keys, 'real': {k: a[k] for k in keys[:2]}, 'model': {k: m[k] for k in keys[:2]}})
        elif not ans.get('wf'):
            bad.append({'desc': cd, 'what': 'the model container of a cache layer is not well-formed (Bag.wfB)'})
    return stats, bad


def run_merge_shard(args):
    """the container of `Merge(*datasets)` (layers/merge.py `_merge_containers`) against `CM.Model.Merge.mergeBags`: the parts'
    real containers go in, the merged containers are compared edge by edge up to node identities"""
    seed, n = args
    paths.use_repo()
    from . import rel
    recs, reqs = [], []
    stats = {'merges': 0, 'parts': 0, 'errors': {}}
    for c in range(n):
        rng = random.Random(seed * 92377 + c)
        k = rng.choice([1, 2, 2, 3, 4])
        id_lists = rel.gen_ids(rng, k)
        common = rng.sample(['x', 'y', 'z'], rng.randint(1, 2))
        counter = [0]
        descs = []
        for ids in id_lists:
            extra = [f for f in ['x', 'y', 'z'] if f not in common and rng.random() < 0.4]
            d = rel.gen_dataset(rng, counter, ids, common + extra)
            if rng.random() < 0.3:
                d = {'k': 'chain', 'flavour': 'chain', 'layers': [d, {'k': 'ram', 'names': None, 'size': None}]}
            descs.append(d)
        world = SymWorld()
        b = Builder(world)
        try:
            layers = [b.layer(d) for d in descs]
            parts = [real_bag(world, l) for l in layers]
        except Exception:
            continue
        try:
            merged = b.c.Merge(*layers)
            real = {'ok': real_bag(world, merged)}
            table = sorted([[i, idx] for idx, l in enumerate(layers) for i in l.ids], key=lambda r: json.dumps(r[0]))
        except (Unsupported, RecUnsupported):
            continue
        except Exception as e:
            real = {'err': exc_name(e)}
            table = []
            if real['err'] == 'RuntimeError':       # overlapping ids: rejected before any container is merged
                continue
        recs.append((descs, real))
        reqs.append({'parts': parts, 'table': table, 'keys': 'ids'})
    answers = driver.run_lines([{'op': 'factory', 'merges': reqs}])[0] if reqs else {'merges': []}
    bad = []
    if 'error' in answers:
        return stats, [{'desc': None, 'diff': answers['error']}]
    for (descs, real), ans in zip(recs, answers['merges']):
        stats['merges'] += 1
        stats['parts'] += len(descs)
        if 'err' in real or 'err' in ans:
            kk = real.get('err', 'ok')
            stats['errors'][kk] = stats['errors'].get(kk, 0) + 1
            if real.get('err') != ans.get('err'):
                bad.append({'desc': descs, 'what': 'Merge container', 'real': real.get('err', 'ok'), 'model': ans.get('err', 'ok')})
            continue
        a, m = canon_sem(real['ok']), canon_sem(ans['ok'])
        if a != m:
            keys = [kk for kk in a if a[kk] != m[kk]]
            bad.append({'desc': descs, 'what': ['Merge container'] + keys, 'real': {kk: a[kk] for kk in keys[:2]}, 'model': {kk: m[kk] for kk in keys[:2]}})
        elif not ans.get('wf'):
            bad.append({'desc': descs, 'what': 'the model container of a Merge is not well-formed (Bag.wfB)'})
    return stats, bad


def run_checkids_shard(args):
    """the container of `CheckIds()._connect(previous)` (layers/check_ids.py) against `CM.Model.CheckIds.checkIdsBag`: the previous
    real container goes in (datasets, merged datasets, plain layers without `ids`, layers with two inputs), the guarded containers
    are compared edge by edge up to node identities"""
    seed, n = args
    paths.use_repo()
    from . import rel
    recs, reqs = [], []
    stats = {'checkids': 0, 'errors': {}, 'edges': 0}
    for c in range(n):
        rng = random.Random(seed * 70001 + c)
        world = SymWorld()
        b = Builder(world)
        kind = rng.choice(['dataset', 'dataset', 'merge', 'layer', 'chain'])
        try:
            if kind == 'layer':
                d = gen_layer(rng, c % 7)
                layer = b.layer(d)
            else:
                counter = [0]
                id_lists = rel.gen_ids(rng, 2 if kind == 'merge' else 1)
                fields = rng.sample(['x', 'y', 'z'], rng.randint(1, 3))
                ds = [rel.gen_dataset(rng, counter, ids, fields) for ids in id_lists]
                d = ds
                layers = [b.layer(x) for x in ds]
                layer = b.c.Merge(*layers) if kind == 'merge' else layers[0]
                if kind == 'chain':
                    layer = layer >> b.c.CacheToRam(None)
            prev = real_bag(world, layer)
        except Exception:
            continue
        try:
            real = {'ok': real_bag(world, None, b.c.CheckIds()._connect(layer._container))}
        except (Unsupported, RecUnsupported):
            continue
        except Exception as e:
            real = {'err': exc_name(e)}
        recs.append((d, real))
        reqs.append(prev)
    answers = driver.run_lines([{'op': 'factory', 'checkids': reqs}])[0] if reqs else {'checkids': []}
    bad = []
    if 'error' in answers:
        return stats, [{'desc': None, 'diff': answers['error']}]
    for (d, real), ans in zip(recs, answers['checkids']):
        stats['checkids'] += 1
        if 'err' in real or 'err' in ans:
            kk = real.get('err', 'ok')
            stats['errors'][kk] = stats['errors'].get(kk, 0) + 1
            # the real layer fails an assertion (not one input) or a lookup (no `ids`); the model rejects both
            if ('err' in real) != ('err' in ans):
                bad.append({'desc': d, 'what': 'CheckIds container', 'real': real.get('err', 'ok'), 'model': ans.get('err', 'ok')})
            continue
        stats['edges'] += len(real['ok']['edges'])
        a, m = canon_sem(real['ok']), canon_sem(ans['ok'])
        if a != m:
            keys = [kk for kk in a if a[kk] != m[kk]]
            bad.append({'desc': d, 'what': ['CheckIds container'] + keys, 'real': {kk: a[kk] for kk in keys[:2]}, 'model': {kk: m[kk] for kk in keys[:2]}})
        elif not ans.get('wf'):
            bad.append({'desc': d, 'what': 'the model container of CheckIds is not well-formed (Bag.wfB)'})
    return stats, bad


def run_filter_shard(args):
    """the container of `previous >> Filter(predicate)` (layers/filter.py `_prepare_container`, layers/dynamic.py `_connect`)
    against `CM.Model.FilterBag.filterConnect`: the previous real container goes in, the filtered containers are compared edge by
    edge up to node identities (the predicate graph inside the FilterEdge is opaque here; S-REL compares what it computes)"""
    seed, n = args
    paths.use_repo()
    from . import rel
    recs, reqs = [], []
    stats = {'filters': 0, 'errors': {}, 'edges': 0, 'skipped_dependency': 0}
    for c in range(n):
        rng = random.Random(seed * 50021 + c)
        world = SymWorld()
        b = Builder(world)
        kind = rng.choice(['dataset', 'dataset', 'merge', 'chain', 'filtered'])
        try:
            counter = [0]
            id_lists = rel.gen_ids(rng, 2 if kind == 'merge' else 1)
            fields = rng.sample(['x', 'y', 'z'], rng.randint(1, 3))
            ds = [rel.gen_dataset(rng, counter, ids, fields) for ids in id_lists]
            layers = [b.layer(x) for x in ds]
            layer = b.c.Merge(*layers) if kind == 'merge' else layers[0]
            if kind == 'chain':
                layer = layer >> b.c.CacheToRam(None)
            if kind == 'filtered':
                layer = layer >> b.c.Filter(lambda id: True)
            prev = real_bag(world, layer)
        except Exception:
            continue
        names = [o.name for o in layer._container.outputs if o.name != 'ids']
        params = rng.sample(names, rng.randint(1, min(2, len(names)))) if names else ['id']
        if rng.random() < 0.1:
            params = params + ['nope']
        keys = 'ids' if rng.random() < 0.9 else 'keys'
        pred = eval('lambda ' + ', '.join(params) + ': True')
        try:
            real = {'ok': real_bag(world, None, b.c.Filter(pred, keys=keys)._connect(layer._container))}
        except (Unsupported, RecUnsupported):
            continue
        except Exception as e:
            if exc_name(e) == 'DependencyError':      # the predicate asks for a field that does not exist: not a container matter
                stats['skipped_dependency'] += 1
                continue
            real = {'err': exc_name(e)}
        recs.append(({'datasets': ds, 'kind': kind, 'params': params, 'keys': keys}, real))
        reqs.append({'prev': prev, 'keys': keys})
    answers = driver.run_lines([{'op': 'factory', 'filters': reqs}])[0] if reqs else {'filters': []}
    bad = []
    if 'error' in answers:
        return stats, [{'desc': None, 'diff': answers['error']}]
    for (d, real), ans in zip(recs, answers['filters']):
        stats['filters'] += 1
        if 'err' in real or 'err' in ans:
            kk = real.get('err', 'ok')
            stats['errors'][kk] = stats['errors'].get(kk, 0) + 1
            if real.get('err') != ans.get('err'):
                bad.append({'desc': d, 'what': 'Filter container', 'real': real.get('err', 'ok'), 'model': ans.get('err', 'ok')})
            continue
        stats['edges'] += len(real['ok']['edges'])
        a, m = canon_sem(real['ok']), canon_sem(ans['ok'])
        if a != m:
            keys_ = [kk for kk in a if a[kk] != m[kk]]
            bad.append({'desc': d, 'what': ['Filter container'] + keys_, 'real': {kk: a[kk] for kk in keys_[:2]}, 'model': {kk: m[kk] for kk in keys_[:2]}})
        elif not ans.get('wf'):
            bad.append({'desc': d, 'what': 'the model container of Filter is not well-formed (Bag.wfB)'})
    return stats, bad


def run_group_shard(args):
    """the container of `GroupBy(by)._connect(previous)` (layers/group.py `_prepare_container`) against `CM.Model.GroupBag.groupByBag`: the
    previous real container goes in (datasets, merged datasets, cached and filtered ones, plain layers without `ids`), the grouped containers are
    compared edge by edge up to node identities (the graphs inside GroupMapping / GroupEdge are opaque here; S-REL compares what they compute)"""
    seed, n = args
    paths.use_repo()
    from . import rel
    recs, reqs = [], []
    stats = {'groups': 0, 'errors': {}, 'edges': 0, 'skipped_by': 0}
    for c in range(n):
        rng = random.Random(seed * 40009 + c)
        world = SymWorld()
        b = Builder(world)
        kind = rng.choice(['dataset', 'dataset', 'merge', 'chain', 'filtered', 'layer', 'bare'])
        try:
            if kind == 'layer':
                d = gen_layer(rng, c % 7)
                layer = b.layer(d)
                names = [o.name for o in layer._container.outputs]
            else:
                counter = [0]
                id_lists = rel.gen_ids(rng, 2 if kind == 'merge' else 1)
                fields = rng.sample(['x', 'y', 'z'], 0 if kind == 'bare' else rng.randint(1, 3))
                d = [rel.gen_dataset(rng, counter, ids, fields) for ids in id_lists]
                layers = [b.layer(x) for x in d]
                layer = b.c.Merge(*layers) if kind == 'merge' else layers[0]
                if kind == 'chain':
                    layer = layer >> b.c.CacheToRam(None)
                if kind == 'filtered':
                    layer = layer >> b.c.Filter(lambda id: True)
                names = [o.name for o in layer._container.outputs if o.name not in ('ids', 'id')]
            prev = real_bag(world, layer)
        except Exception:
            continue
        by = rng.choice(names) if names and rng.random() < 0.8 else 'id'
        try:
            real = {'ok': real_bag(world, None, b.c.GroupBy(by)._connect(layer._container))}
        except (Unsupported, RecUnsupported):
            continue
        except Exception as e:
            if exc_name(e) in ('DependencyError', 'FieldError', 'GraphError') and len(layer._container.inputs) == 1 and \
                    any(o.name == 'ids' for o in layer._container.outputs):
                stats['skipped_by'] += 1          # the `by` graph cannot be compiled: not a matter of the container
                continue
            real = {'err': exc_name(e)}
        recs.append(({'prev': d, 'kind': kind, 'by': by}, real))
        reqs.append(prev)
    answers = driver.run_lines([{'op': 'factory', 'groups': reqs}])[0] if reqs else {'groups': []}
    bad = []
    if 'error' in answers:
        return stats, [{'desc': None, 'diff': answers['error']}]
    for (d, real), ans in zip(recs, answers['groups']):
        stats['groups'] += 1
        if 'err' in real or 'err' in ans:
            kk = real.get('err', 'ok')
            stats['errors'][kk] = stats['errors'].get(kk, 0) + 1
            # AssertionError (not one input, no `ids`), RuntimeError (no field to group; the model says ValueError)
            if ('err' in real) != ('err' in ans) or {real['err'], ans['err']} not in ({'AssertionError'}, {'RuntimeError', 'ValueError'}):
                bad.append({'desc': d, 'what': 'GroupBy container', 'real': real.get('err', 'ok'), 'model': ans.get('err', 'ok')})
            continue
        stats['edges'] += len(real['ok']['edges'])
        a, m = canon_sem(real['ok']), canon_sem(ans['ok'])
        if a != m:
            keys_ = [kk for kk in a if a[kk] != m[kk]]
            bad.append({'desc': d, 'what': ['GroupBy container'] + keys_, 'real': {kk: a[kk] for kk in keys_[:2]}, 'model': {kk: m[kk] for kk in keys_[:2]}})
        elif not ans.get('wf'):
            bad.append({'desc': d, 'what': 'the model container of GroupBy is not well-formed (Bag.wfB)'})
    return stats, bad


def run_join_shard(args):
    """the container `JoinContainer(left, right, on, ..., cache, how)` (layers/join.py) against `CM.Model.JoinBag.joinBag`: two real containers go in
    (datasets, merged / cached datasets, plain layers), key fields that are shared, missing on one side, conflicting or equal to `id`; the four join
    modes; with and without the user's cache edge; the joined containers are compared edge by edge up to node identities (the graphs inside
    `JoinMapping` are opaque here; S-REL compares what they compute)"""
    seed, n = args
    paths.use_repo()
    from . import rel
    from connectome.layers.join import JoinContainer, JoinMode
    from connectome.engine import CacheEdge
    from connectome.cache import MemoryCache
    recs, reqs = [], []
    stats = {'joins': 0, 'errors': {}, 'edges': 0, 'modes': {}}
    for c in range(n):
        rng = random.Random(seed * 30011 + c)
        world = SymWorld()
        b = Builder(world)
        try:
            counter = [0]
            sides, descs = [], []
            shared = rng.sample(['k', 'j'], rng.randint(1, 2))
            for side in range(2):
                kind = rng.choice(['dataset', 'dataset', 'dataset', 'merge', 'chain', 'layer'])
                if kind == 'layer':
                    d = gen_layer(rng, (c + side) % 7)
                    layer = b.layer(d)
                else:
                    own = rng.sample(['x', 'y'] if side == 0 else ['z', 'w'], rng.randint(0, 2))
                    extra = ['y'] if rng.random() < 0.08 else []         # sometimes a conflicting field
                    fields = [f for f in shared if rng.random() < 0.93] + own + [e for e in extra if e not in own]
                    id_lists = rel.gen_ids(rng, 2 if kind == 'merge' else 1)
                    d = [rel.gen_dataset(rng, counter, ids, fields) for ids in id_lists]
                    layers = [b.layer(x) for x in d]
                    layer = b.c.Merge(*layers) if kind == 'merge' else layers[0]
                    if kind == 'chain':
                        layer = layer >> b.c.CacheToRam(None)
                sides.append(layer)
                descs.append({'kind': kind, 'd': d})
            left, right = real_bag(world, sides[0]), real_bag(world, sides[1])
        except Exception:
            continue
        common = [set(o.name for o in x._container.outputs) - {'ids', 'id'} for x in sides]
        on = sorted(common[0] & common[1])
        rng.shuffle(on)
        r = rng.random()
        if r < 0.04:
            on = on + ['id']
        elif r < 0.08 and on:
            on = on + [on[0]]
        elif r < 0.12:
            on = on + ['nope']
        elif r < 0.16 and on:
            on = on[1:]          # a shared field that is no key: a conflict
        how = rng.choice(['inner', 'left', 'right', 'outer'])
        cached = rng.random() < 0.3
        try:
            cont = JoinContainer(sides[0]._container, sides[1]._container, tuple(on), lambda x: x,
                                 cache=CacheEdge(MemoryCache(None)) if cached else None, verbose=False, how=JoinMode[how])
            real = {'ok': real_bag(world, None, cont)}
        except (Unsupported, RecUnsupported):
            continue
        except Exception as e:
            real = {'err': exc_name(e)}
        recs.append(({'sides': descs, 'on': on, 'how': how, 'cached': cached}, real))
        reqs.append({'left': left, 'right': right, 'on': on, 'how': how, 'cached': cached})
    answers = driver.run_lines([{'op': 'factory', 'joins': reqs}])[0] if reqs else {'joins': []}
    bad = []
    if 'error' in answers:
        return stats, [{'desc': None, 'diff': answers['error']}]
    for (d, real), ans in zip(recs, answers['joins']):
        stats['joins'] += 1
        if 'err' in real or 'err' in ans:
            kk = real.get('err', 'ok')
            stats['errors'][kk] = stats['errors'].get(kk, 0) + 1
            if real.get('err') != ans.get('err'):
                bad.append({'desc': d, 'what': 'Join container', 'real': real.get('err', 'ok'), 'model': ans.get('err', 'ok')})
            continue
        stats['modes'][d['how']] = stats['modes'].get(d['how'], 0) + 1
        stats['edges'] += len(real['ok']['edges'])
        a, m = canon_sem(real['ok']), canon_sem(ans['ok'])
        if a != m:
            keys_ = [kk for kk in a if a[kk] != m[kk]]
            bad.append({'desc': d, 'what': ['Join container'] + keys_, 'real': {kk: a[kk] for kk in keys_[:2]}, 'model': {kk: m[kk] for kk in keys_[:2]}})
        elif not ans.get('wf'):
            bad.append({'desc': d, 'what': 'the model container of Join is not well-formed (Bag.wfB)'})
    return stats, bad
