"""S-NEUTRAL / S-SEED (C07): hashes and digests are unchanged by rebuilding, by inserting hash-transparent layers, by
changing a Silent argument, by pickling the compiled function, and by running in a fresh interpreter with another
PYTHONHASHSEED."""
import copy, hashlib, json, os, pickle, random, subprocess, sys
from . import paths, refsem
from .pipeline import Builder, observe
from .sym import SymWorld
from .codec import canon, exc_name, val_to_json
from .gen_pipe import gen_stack, POOL
from .suite_bag import NAMES


def field_hashes(b, layer):
    o = observe(b, layer, NAMES, hashes=True)
    if 'dir_err' in o:
        return None
    return {k: canon(v.get('hash', v.get('hash_err', v.get('err')))) for k, v in o['fields'].items()}


def digest_of(fn, inputs):
    from tarn.pickler import dumps
    h, _ = fn.get_hash(*inputs)
    return hashlib.sha256(dumps(h.value)).hexdigest()[:16]


def run_neutral_case(seed):
    rng = random.Random(seed)
    stack = gen_stack(rng, max_layers=5, source=True, caches=False)
    flat = refsem.flatten(stack)
    world = SymWorld()
    problems = []
    rec = {'stack': stack, 'rewrites': 0}
    try:
        b = Builder(world)
        base = field_hashes(b, b.layer(stack))
    except Exception:
        return rec, problems
    if base is None:
        return rec, problems
    rewrites = []
    # a rebuild from the same definitions
    rewrites.append(('rebuild', stack))
    # a cache layer / an inherit-only Transform at a random position
    for what, layer in (('cache-layer', {'k': 'ram', 'names': None, 'size': rng.choice([None, 2])}),
                        ('inherit-only', {'k': 'transform', 'cls': 'Neutral', 'fields': {}, 'params': {}, 'cargs': {}, 'defaults': {}, 'inherit': True})):
        pos = rng.randint(1, len(flat))
        rewrites.append((what, {'k': 'chain', 'flavour': 'chain', 'layers': flat[:pos] + [layer] + flat[pos:]}))
    # nesting
    if len(flat) >= 3:
        cut = rng.randint(1, len(flat) - 1)
        rewrites.append(('nested', {'k': 'chain', 'flavour': 'chain', 'layers': [{'k': 'chain', 'flavour': 'rshift', 'layers': flat[:cut]}] + flat[cut:]}))
    for what, d in rewrites:
        try:
            b2 = Builder(world)
            got = field_hashes(b2, b2.layer(d))
        except Exception as e:
            problems.append({'stack': stack, 'rewrite': what, 'msg': f'the neutral rewrite "{what}" raises {exc_name(e)}'})
            continue
        rec['rewrites'] += 1
        if got != base:
            bad = [k for k in base if got is None or got.get(k) != base[k]]
            problems.append({'stack': stack, 'rewrite': what, 'desc': d,
                             'msg': f'the neutral rewrite "{what}" changed the node hash of {bad[:3]}'})
    # pickling the compiled functions
    try:
        b3 = Builder(world)
        layer = b3.layer(stack)
        for name in layer._methods.fields()[:3]:
            f = layer._compile(name)
            sig = list(f.__signature__.parameters) if hasattr(f, '__signature__') else None
            if sig is None or not hasattr(f, 'get_hash'):
                continue
            g = pickle.loads(pickle.dumps(f))
            ins = ['$' + p for p in sig]
            if digest_of(f, ins) != digest_of(g, ins) or list(g.__signature__.parameters) != sig:
                problems.append({'stack': stack, 'rewrite': 'pickle', 'msg': f'pickling the compiled function of {name!r} changed its digest or signature'})
            rec['rewrites'] += 1
    except Exception as e:
        problems.append({'stack': stack, 'rewrite': 'pickle', 'msg': f'pickling a compiled function raises {exc_name(e)}: {str(e)[:120]}'})
    return rec, problems


def silent_case(seed):
    """Source >> T(n: Silent) >> [Filter over the field]: another value of the Silent argument changes no hash"""
    rng = random.Random(seed)
    world = SymWorld()
    problems = []

    def desc(n, with_filter):
        src = {'k': 'source', 'cls': 'S0', 'ids': ['i1', 'i2', 'i3'], 'fields': {'a': {'args': ['i']}}, 'params': {}, 'cargs': {}, 'defaults': {}}
        t = {'k': 'transform', 'cls': 'TS', 'fields': {'b': {'args': ['a', '_n'], 'silent': ['_n']}}, 'params': {}, 'cargs': {'n': n},
             'defaults': {}, 'inherit': True}
        layers = [src, t]
        if with_filter:
            layers.append({'k': 'filter', 'f': 'pred', 'args': ['b'], 'table': []})
        return {'k': 'chain', 'flavour': 'chain', 'layers': layers}
    for with_filter in (False, True):
        hs = []
        for n in (1, 8):
            b = Builder(world)
            p = b.layer(desc(n, with_filter))
            try:
                hb = digest_of(p._compile('b'), ['i1'])
                hi = digest_of(p._compile('ids'), [])
                hs.append((hb, hi))
            except Exception as e:
                problems.append({'msg': f'Silent argument case raises {exc_name(e)}: {str(e)[:100]}'})
        if len(hs) == 2 and hs[0] != hs[1]:
            what = 'b' if hs[0][0] != hs[1][0] else 'ids'
            problems.append({'with_filter': with_filter,
                             'msg': f'changing a Silent constructor argument (n=1 -> n=8){" upstream of a Filter" if with_filter else ""} changed the digest of {what!r}'})
    return problems


def dataset_neutral_case(seed):
    """Source >> [hash-transparent layer] >> Filter / GroupBy: inserting a cache layer of ANY kind (RAM, disk, columns) or an
    inherit-only Transform upstream of a dataset-wide layer changes neither the digest of `ids` nor of the other fields"""
    import shutil, tempfile
    from . import paths
    rng = random.Random(seed)
    world = SymWorld()
    problems, rewrites = [], 0
    os.makedirs(paths.SCRATCH, exist_ok=True)
    root = tempfile.mkdtemp(dir=paths.SCRATCH)
    try:
        src = {'k': 'source', 'cls': 'SN', 'ids': ['i1', 'i2', 'i3', 'i4'], 'fields': {'a': {'args': ['i']}, 'c': {'args': ['i']}},
               'params': {}, 'cargs': {}, 'defaults': {}}
        world.tables['predN'] = {}
        tail = rng.choice([{'k': 'filter', 'f': 'predN', 'args': ['a'], 'table': []},
                           {'k': 'groupby', 'by': 'c'}])
        neutral = [('none', None),
                   ('ram', {'k': 'ram', 'names': None, 'size': None}),
                   ('disk', {'k': 'disk', 'names': ['a', 'c'], 'root': 0}),
                   ('columns', {'k': 'columns', 'names': ['a', 'c'], 'root': 0, 'shard': rng.choice([None, 2])}),
                   ('inherit-only', {'k': 'transform', 'cls': 'NeutralN', 'fields': {}, 'params': {}, 'cargs': {}, 'defaults': {}, 'inherit': True})]
        base = None
        for what, layer in neutral:
            layers = [src] + ([layer] if layer else []) + [tail]
            try:
                b = Builder(world, roots=[root])
                p = b.layer({'k': 'chain', 'flavour': 'chain', 'layers': layers})
                got = {'ids': digest_of(p._compile('ids'), [])}
                if tail['k'] == 'filter':
                    got['c'] = digest_of(p._compile('c'), ['i1'])
            except Exception as e:
                problems.append({'msg': f'inserting {what!r} upstream of {tail["k"]} raises {exc_name(e)}: {str(e)[:100]}'})
                continue
            rewrites += 1
            if base is None:
                base = got
            elif got != base:
                bad = [k for k in base if got.get(k) != base[k]]
                problems.append({'rewrite': what, 'tail': tail['k'],
                                 'msg': f'inserting the hash-transparent layer {what!r} upstream of {tail["k"]} changed the digest of {bad}'})
    finally:
        shutil.rmtree(root, ignore_errors=True)
    return rewrites, problems


# ---------------------------------------------------------------- fresh interpreters

SEED_SCRIPT = r'''
import sys, json, hashlib
sys.path.insert(0, %(harness)r)
from cv import suite_neutral
print(json.dumps(suite_neutral.seed_digests(%(n)d, %(seed)d)))
'''


def seed_pipelines(n, seed):
    """a deterministic list of pipeline descriptions over all layer kinds"""
    from . import rel
    out = []
    for i in range(n):
        rng = random.Random(seed * 1000 + i)
        if i % 3 == 0:
            out.append(('stack', gen_stack(rng, max_layers=4, source=True, caches=False)))
        else:
            d = rel.gen_rel(rng, rng.choice(['merge', 'filter', 'groupby', 'join']))
            if d['k'] == 'chain' and rng.random() < 0.5:
                ids = sorted(rng.sample(rel.UNIVERSE, 4), reverse=rng.random() < 0.5)
                d = {'k': 'chain', 'flavour': 'chain', 'layers': d['layers'] + [{'k': rng.choice(['keep', 'drop']), 'ids': ids}]}
            out.append(('rel', d))
    return out


def seed_digests(n, seed):
    """digest of every field of every pipeline on one input (run in the parent and in fresh interpreters)"""
    res = []
    for kind, d in seed_pipelines(n, seed):
        rec = {}
        try:
            b = Builder(SymWorld())
            p = b.layer(d)
            for name in sorted(dir(p))[:6]:
                try:
                    f = p._compile(name)
                    if not hasattr(f, 'get_hash'):
                        continue
                    k = len(f.__signature__.parameters)
                    rec[name] = digest_of(f, ['i1'] * k)
                except Exception as e:
                    rec[name] = 'ERR ' + exc_name(e)
        except Exception as e:
            rec = {'construct': exc_name(e)}
        res.append(rec)
    return res


def run_seed_check(n, seed, hashseeds=('0', '1', '4242')):
    here = seed_digests(n, seed)
    problems = []
    procs = []
    for hs in hashseeds:
        env = dict(os.environ, PYTHONHASHSEED=hs, PYTHONDONTWRITEBYTECODE='1')
        code = SEED_SCRIPT % {'harness': os.path.join(paths.VERIF, 'harness'), 'n': n, 'seed': seed}
        procs.append((hs, subprocess.Popen(['/venv/bin/python', '-c', code], env=env, stdout=subprocess.PIPE, stderr=subprocess.PIPE)))
    descs = seed_pipelines(n, seed)
    for hs, p in procs:
        out, err = p.communicate(timeout=600)
        try:
            there = json.loads(out.decode().strip().splitlines()[-1])
        except Exception:
            problems.append({'msg': f'the interpreter with PYTHONHASHSEED={hs} failed: {err.decode()[-300:]}'})
            continue
        for i, (a, b_) in enumerate(zip(here, there)):
            if a != b_:
                bad = [k for k in a if a.get(k) != b_.get(k)]
                problems.append({'desc': descs[i][1], 'hashseed': hs,
                                 'msg': f'a fresh interpreter with PYTHONHASHSEED={hs} computes another digest for {bad[:3]}'})
    evals = sum(len(r) for r in here)
    return {'pipelines': n, 'digests': evals, 'interpreters': len(hashseeds)}, problems


def run_shard(args):
    seed, n = args
    problems, rewrites, cases = [], 0, 0
    for i in range(n):
        rec, pr = run_neutral_case(seed * 8191 + i)
        problems += pr
        rewrites += rec['rewrites']
        cases += 1
    problems += silent_case(seed)
    r2, p2 = dataset_neutral_case(seed)
    rewrites += r2
    problems += p2
    return {'cases': cases, 'rewrites': rewrites}, problems


def run_two_storages(seed):
    """a value written to a disk cache by one run is found by the next run although a hash-transparent layer was inserted:
    another CacheToDisk layer, on a storage configured with ANOTHER digest algorithm, downstream of the first one (C07: the key
    of the first cache is unchanged; nothing upstream is executed again)"""
    import os, shutil, tempfile
    from . import paths
    from .pipeline import Builder
    from .sym import SymWorld
    rng = random.Random(seed)
    os.makedirs(paths.SCRATCH, exist_ok=True)
    scratch = tempfile.mkdtemp(prefix='cv-two-', dir=paths.SCRATCH)
    problems = []
    try:
        roots = [os.path.join(scratch, 'a'), os.path.join(scratch, 'b')]
        algos = rng.sample(['sha256', 'blake2s', 'sha512', 'blake2b'], 2)
        src = {'k': 'source', 'cls': 'TW', 'ids': ['i1', 'i2', 'i3'], 'fields': {'x': {'args': ['i']}}, 'params': {}, 'cargs': {}, 'defaults': {}}
        t = {'k': 'transform', 'cls': 'TWT', 'fields': {'y': {'args': ['x']}}, 'params': {}, 'cargs': {}, 'defaults': {}, 'inherit': True}
        inner = {'k': 'disk', 'names': ['y'], 'root': 0, 'algo': algos[0]}
        outer = {'k': 'disk', 'names': ['y'], 'root': 1, 'algo': algos[1]}
        keys = rng.sample(['i1', 'i2', 'i3'], 2)
        world = SymWorld()
        first = Builder(world, roots=roots).layer({'k': 'chain', 'flavour': 'chain', 'layers': [src, t, inner]})
        vals = [canon(val_to_json(first.y(k), world)) for k in keys]
        second = Builder(world, roots=roots).layer({'k': 'chain', 'flavour': 'chain', 'layers': [src, t, inner, outer]})
        mark = world.mark()
        vals2 = [canon(val_to_json(second.y(k), world)) for k in keys]
        again = sorted({c[0] for c in world.since(mark)})
        if vals2 != vals:
            problems.append({'msg': f'two disk caches ({algos}): values differ after inserting the second cache layer'})
        elif again:
            problems.append({'algos': algos, 'msg': f'a second CacheToDisk layer (digest {algos[1]}) inserted downstream of the first ({algos[0]}): the values the first '
                                                   f'run wrote were not found, {again} were executed again (the key of the first cache changed)'})
    except Exception as e:
        problems.append({'msg': 'two-storages scenario raised ' + exc_name(e) + ': ' + str(e)[:200]})
    finally:
        shutil.rmtree(scratch, ignore_errors=True)
    return problems


def run_ids_order(seed):
    """C07: the digest of what a dataset-wide layer derives from a Merge (the ids kept by Filter, the group ids of GroupBy) does not
    depend on the ORDER in which a merged source happens to list its ids (Merge.ids is the sorted union; the values of all fields
    are the same): a run whose source enumerates the same entries in another order finds what the previous run wrote."""
    from .pipeline import Builder
    from .sym import SymWorld
    rng = random.Random(seed)
    ids_a = rng.sample([f'i{k}' for k in range(6)], rng.randint(2, 4))
    ids_b = [f'j{k}' for k in range(rng.randint(1, 3))]
    tabs = lambda cls, ids: {'x': {'args': ['i'], 'f': f'{cls}.x'},
                             'kk': {'args': ['i'], 'f': f'{cls}.kk', 'table': [[[i], 'gh'[n % 2]] for n, i in enumerate(sorted(ids))]}}
    problems = []
    world = SymWorld()
    recs = []
    for perm in range(3):
        order = list(ids_a)
        if perm:
            rng.shuffle(order)
        b = Builder(world)
        b.ids_by_value = False          # the ids function is ONE function object whatever it returns
        a = {'k': 'source', 'cls': 'OA', 'ids': order, 'fields': tabs('OA', ids_a), 'params': {}, 'cargs': {}, 'defaults': {}}
        bb = {'k': 'source', 'cls': 'OB', 'ids': ids_b, 'fields': tabs('OB', ids_b), 'params': {}, 'cargs': {}, 'defaults': {}}
        pred = {'k': 'filter', 'f': 'opred', 'args': ['kk'], 'table': [[['g'], True], [['h'], rng.random() < 0.5]]}
        world.tables['opred'] = {('g',): True, ('h',): False}
        tail = rng.choice([[pred], [{'k': 'groupby', 'by': 'kk'}], [pred, {'k': 'groupby', 'by': 'kk'}]]) if perm == 0 else tail
        try:
            p = b.layer({'k': 'chain', 'flavour': 'chain', 'layers': [{'k': 'merge', 'parts': [a, bb]}] + tail})
            f = p._compile('ids')
            recs.append((order, digest_of(f, []), canon(val_to_json(f(), world))))
        except Exception as e:
            recs.append((order, 'ERR ' + exc_name(e), None))
    for order, dg, val in recs[1:]:
        if val == recs[0][2] and dg != recs[0][1]:
            problems.append({'orders': [recs[0][0], order], 'tail': tail,
                             'msg': f'Merge(A, B) >> {[t["k"] for t in tail]}: the same entries listed by A as {order} instead of {recs[0][0]} give '
                                    f'the same `ids` {str(val)[:60]} under another digest: what one run stored the next does not find'})
            break
    return problems


def run_dynamic_bracketings(seed):
    """C07 (and C09): a dataset-wide layer (Filter / GroupBy) between transforms, the same four or five layers in every bracketing
    of depth up to two (`a >> (b >> c)`, `a >> ((b >> c) >> d)`, `(a >> b) >> (c >> d)`, ...): the digests of `ids` and of a field
    downstream, and the values, do not depend on the bracketing"""
    from .pipeline import Builder
    from .sym import SymWorld
    rng = random.Random(seed)
    world = SymWorld()
    ids = [f'i{k}' for k in range(rng.randint(3, 5))]
    src = {'k': 'source', 'cls': 'DS', 'ids': ids, 'fields': {'x': {'args': ['i'], 'f': 'DS.x'},
                                                             'kk': {'args': ['i'], 'f': 'DS.kk', 'table': [[[i], 'gh'[n % 2]] for n, i in enumerate(ids)]}},
           'params': {}, 'cargs': {}, 'defaults': {}}
    t = {'k': 'transform', 'cls': 'DT', 'fields': {'m': {'args': ['kk'], 'f': 'DT.m', 'table': [[['g'], 'g'], [['h'], 'h']]}},
         'params': {}, 'cargs': {}, 'defaults': {}, 'inherit': True}
    # (a GroupBy cannot be built on a transform alone - it asserts a single input - so only the Filter is nested freely)
    dyn = {'k': 'filter', 'f': 'dpred', 'args': rng.choice([['m'], ['m', 'id']]), 'table': [[['g'], True], [['h'], False]] if rng.random() < 0.5 else []}
    u = {'k': 'transform', 'cls': 'DU', 'fields': {'y': {'args': ['x'], 'f': 'DU.y'}}, 'params': {}, 'cargs': {}, 'defaults': {}, 'inherit': True}
    layers = [src, t, dyn, u] + ([{'k': 'transform', 'cls': 'DV', 'fields': {'z': {'args': ['y'], 'f': 'DV.z'}}, 'params': {}, 'cargs': {}, 'defaults': {},
                                   'inherit': True}] if rng.random() < 0.5 else [])

    def ch(xs, fl='chain'):
        return xs[0] if len(xs) == 1 else {'k': 'chain', 'flavour': fl, 'layers': list(xs)}
    L = layers
    shapes = {'flat': ch(L), 'a >> (rest)': ch([L[0], ch(L[1:])]), 'a >> ((b >> c) >> rest)': ch([L[0], ch([ch(L[1:3]), ch(L[3:])])]),
              '(a >> b) >> (c >> rest)': ch([ch(L[:2]), ch(L[2:], 'lazy')]), 'a >> ((b >> c) >> rest) by >>': ch([L[0], ch([ch(L[1:3], 'rshift'), ch(L[3:])], 'rshift')], 'rshift'),
              '((a >> b) >> c) >> rest': ch([ch([ch(L[:2]), L[2]])] + L[3:])}
    recs, problems = {}, []
    for name, desc in shapes.items():
        b = Builder(world)
        b.ids_by_value = False
        try:
            p = b.layer(desc)
        except Exception as e:
            if name == 'flat':
                return []
            continue        # a block with a dataset-wide layer may be impossible to build on its own: not a re-bracketing of the pipeline
        try:
            f = p._compile('ids')
            g = p._compile('y')
            kept = f()
            rec = (digest_of(f, []), canon(val_to_json(kept, world)))
            if kept:
                rec += (digest_of(g, [kept[0]]), canon(val_to_json(g(kept[0]), world)))
            recs[name] = rec
        except Exception as e:
            recs[name] = ('ERR ' + exc_name(e),)
    base = recs['flat']
    for name, r in recs.items():
        if r != base:
            what = 'raises ' + r[0] if len(r) == 1 else ('values differ' if r[1::2] != base[1::2] else 'digests differ (same values)')
            problems.append({'layers': [l['k'] for l in layers], 'shape': name,
                             'msg': f'{[l.get("cls", l["k"]) for l in layers]} as {name}: {what} from the flat chain: {str(r)[:160]} vs {str(base)[:160]}'})
            break
    return problems


def run_checkids_neutral(seed):
    """C15 / C07: CheckIds is hash-transparent also for the layers stacked on top of it: inserting `CheckIds()` before a Filter / keep /
    GroupBy changes no digest (of `ids`, of a field) and no value"""
    from .pipeline import Builder
    from .sym import SymWorld
    rng = random.Random(seed)
    world = SymWorld()
    ids = [f'i{k}' for k in range(rng.randint(3, 5))]
    src = {'k': 'source', 'cls': 'CN', 'ids': ids, 'fields': {'x': {'args': ['i'], 'f': 'CN.x'},
                                                             'kk': {'args': ['i'], 'f': 'CN.kk', 'table': [[[i], 'gh'[n % 2]] for n, i in enumerate(ids)]}},
           'params': {}, 'cargs': {}, 'defaults': {}}
    top = rng.choice([[{'k': 'keep', 'ids': ids[:2]}], [{'k': 'groupby', 'by': 'kk'}],
                      [{'k': 'filter', 'f': 'cnpred', 'args': ['kk'], 'table': [[['g'], True], [['h'], False]]}],
                      [{'k': 'keep', 'ids': ids[:3]}, {'k': 'groupby', 'by': 'kk'}]])
    recs = []
    for guard in (False, True):
        b = Builder(world)
        b.ids_by_value = False
        layers = [src] + ([{'k': 'check_ids'}] if guard else []) + top
        try:
            p = b.layer({'k': 'chain', 'flavour': 'chain', 'layers': layers})
            f, g = p._compile('ids'), p._compile('x')
            kept = f()
            recs.append((digest_of(f, []), canon(val_to_json(kept, world)), digest_of(g, [kept[0]]), canon(val_to_json(g(kept[0]), world))))
        except Exception as e:
            recs.append(('ERR ' + exc_name(e),))
    if recs[0] != recs[1]:
        return [{'top': [t['k'] for t in top],
                 'msg': f'CN >> {[t["k"] for t in top]} with and without CheckIds() before the dataset-wide layer: '
                        f'{"digests differ (same values)" if len(recs[0]) > 1 and len(recs[1]) > 1 and recs[0][1::2] == recs[1][1::2] else "differ"}: '
                        f'{str(recs[0])[:150]} vs {str(recs[1])[:150]}'}]
    return []
