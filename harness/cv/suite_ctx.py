"""S-CTX (C10): chains of invertible / inheriting / forward-only / cache layers; `_decorate(inputs, outputs, final)(f)`
on symbolic inputs against CM.Model.Loopback and the reference written from the property text:
forward fields through the layers in order, then f, then the inverse fields in reverse order."""
import json, random
from . import driver, refsem
from .pipeline import Builder
from .sym import SymWorld, App
from .codec import canon, val_to_json, exc_name

NAMES = ['x', 'y', 'z']


def gen_layer(rng, idx, used=NAMES):
    """mostly layers through which the used names have an inverse path (own inverse, or backward inheritance)"""
    r = rng.random()
    if r < 0.12:
        return {'k': 'ram', 'names': None, 'size': None}
    if r < 0.2:
        n = rng.choice(NAMES)
        return {'k': 'apply', 'fns': {n: f'ap{idx}.{n}'}}
    cls = f'L{idx}'
    fields, inverses, params = {}, {}, {}
    if rng.random() < 0.5:
        params['_p'] = {'args': rng.sample(NAMES, rng.choice([0, 1]))}
    style = rng.choices(['invertible', 'inherit', 'forward-only', 'wild', 'listed-inverse', 'exclude-only'], [42, 20, 8, 14, 9, 7])[0]
    if style == 'exclude-only':
        # a layer without fields of its own that passes on everything but one of the used names: that name has no inverse
        # path through it (and no forward path either)
        return {'k': 'transform', 'cls': cls, 'fields': {}, 'inverses': {}, 'params': {}, 'cargs': {}, 'defaults': {},
                'exclude': [rng.choice(used)] + [n for n in NAMES if n not in used and rng.random() < 0.3]}
    if style == 'listed-inverse':
        # a name listed in __inherit__ for which the layer also has its own (non-identity) inverse, but no forward field
        b_ = rng.choice(used)
        others = [n for n in NAMES if n != b_]
        fwd, inv = [rng.choice(others)], [b_]
        d = {'k': 'transform', 'cls': cls, 'fields': {fwd[0]: {'args': [fwd[0]]}},
             'inverses': {b_: {'args': [b_] + (['_p'] if params and rng.random() < 0.6 else [])}}, 'params': params, 'cargs': {},
             'defaults': {}, 'inherit': [b_] + [n for n in others if n != fwd[0] and rng.random() < 0.5]}
        return d
    if style == 'wild':
        fwd = rng.sample(NAMES, rng.choice([0, 1, 1, 2]))
        inv = [n for n in NAMES if rng.random() < (0.7 if n in fwd else 0.15)]
    elif style == 'invertible':
        fwd = [n for n in used if rng.random() < 0.8] or list(used[:1])
        inv = list(fwd)
    elif style == 'inherit':
        fwd, inv = [], []
    else:
        fwd, inv = list(used[:1]), []
    for n in fwd:
        fields[n] = {'args': [n] + (['_p'] if params and rng.random() < 0.6 else [])}
    for n in inv:
        args = [n] + (['_p'] if params and rng.random() < 0.6 else [])
        if rng.random() < 0.12:
            args.append(rng.choice([m for m in NAMES if m != n]))     # an inverse that needs a second inverse input
        inverses[n] = {'args': args}
    d = {'k': 'transform', 'cls': cls, 'fields': fields, 'inverses': inverses, 'params': params, 'cargs': {}, 'defaults': {}}
    r = rng.random()
    if style in ('invertible', 'inherit') and r < 0.75:
        if rng.random() < 0.7:
            d['inherit'] = True
        else:
            lst = [n for n in NAMES if n not in fields and (n in used or rng.random() < 0.3)]
            if rng.random() < 0.3 and inv:
                lst.append(rng.choice(inv)) if rng.choice(inv) not in fields else None   # listed *and* inverted
            if lst:
                d['inherit'] = lst
    elif r < 0.3:
        d['inherit'] = True
    elif r < 0.4:
        d['exclude'] = rng.sample(NAMES, 1)
    return d


def gen_case(rng):
    inputs = rng.sample(NAMES, rng.choice([1, 1, 2]))
    r = rng.random()
    if r < 0.5:
        outputs = None
    elif r < 0.75:
        outputs = rng.choice(NAMES)
    else:
        outputs = rng.sample(NAMES, rng.choice([1, 2]))
    used = list(dict.fromkeys(inputs + ([outputs] if isinstance(outputs, str) else list(outputs or []))))
    layers = [gen_layer(rng, i, used) for i in range(rng.randint(1, 5))]
    while layers[0]['k'] != 'transform':
        layers[0] = gen_layer(rng, 0, used)
    final = None if rng.random() < 0.6 else rng.choice([rng.choice(used), rng.sample(NAMES, rng.choice([1, 2]))])
    return {'layers': layers, 'inputs': inputs if rng.random() < 0.7 or len(inputs) > 1 else inputs[0], 'outputs': outputs, 'final': final}


def normalise(case):
    """the defaults of `_decorate`"""
    inputs, outputs, final = case['inputs'], case['outputs'], case['final']
    if outputs is None:
        outputs = inputs
    if final is None:
        final = outputs
    ins = [inputs] if isinstance(inputs, str) else list(inputs)
    return ins, outputs, final


def reference(case):
    """forward in order, then f, then the inverses in reverse order; returns {'err'} or {name: term value}"""
    ins, outputs, final = normalise(case)
    flat = case['layers']
    stack = {'k': 'chain', 'flavour': 'chain', 'layers': flat}
    layers = [refsem.L(d, i) for i, d in enumerate(flat)]
    # the forward state before every layer
    pres = []
    for i in range(len(layers) + 1):
        try:
            out, virt, _ = refsem.sig(layers[:i])
        except refsem.RefError:
            return {'err': True}
        pres.append((out, virt))
    out, virt = pres[-1]

    def look(state, n, where):
        o, v = state
        if n in o:
            return o[n][0]
        return ('in', n) if v(n) else refsem.Broken({(where, n)})
    args = [look(pres[-1], n, len(layers)) for n in ins]
    if any(isinstance(a, refsem.Broken) for a in args):
        call = refsem.Broken(set())
    else:
        call = ('app', 'F', tuple(args))
    if isinstance(outputs, str):
        back = {outputs: call}
    else:
        back = {o: (call if isinstance(call, refsem.Broken) else ('app', f'itemgetter:{i}', (call,))) for i, o in enumerate(outputs)}
    for i in range(len(layers) - 1, -1, -1):
        l, d = layers[i], flat[i]
        if l.kind in ('ram', 'disk', 'columns'):
            continue
        new = {}
        invs = d.get('inverses', {})
        for n, spec in invs.items():
            ts = []
            for a in spec['args']:
                if a.startswith('_'):
                    p = l.params.get(a)
                    if p is None:
                        return {'err': True}
                    if p[0] == 'const':
                        ts.append(('const', p[1]))
                    else:
                        pargs = [look(pres[i], x, i) if not x.startswith('_') else None for x in p[2]]
                        ts.append(refsem.Broken(set()) if any(isinstance(t, refsem.Broken) or t is None for t in pargs)
                                  else ('app', p[1], tuple(pargs)))
                else:
                    ts.append(back.get(a, refsem.Broken(set())))
            fname = spec.get('f') or f'{d["cls"]}.inv.{n}'
            new[n] = refsem.Broken(set()) if any(isinstance(t, refsem.Broken) for t in ts) else ('app', fname, tuple(ts))
        # backward inheritance
        if l.kind == 'apply':
            binh = lambda n: True
        elif l.kind == 'source':
            binh = lambda n: False
        else:
            inh, exc = d.get('inherit'), d.get('exclude')
            if exc:
                binh = lambda n, exc=exc, invs=invs: n not in exc and n not in invs
            elif inh is True:
                binh = lambda n, invs=invs: n not in invs
            elif inh:
                binh = lambda n, inh=inh: n in inh
            else:
                binh = lambda n: False
        for n, t in back.items():
            if binh(n) and n not in new:
                new[n] = t
        back = new
    fin = [final] if isinstance(final, str) else list(final)
    res = {}
    for n in fin:
        t = back.get(n)
        if t is None or isinstance(t, refsem.Broken):
            return {'err': True}
        res[n] = t
    # an output name of the decorated function that is NOT asked for in `final` but has a broken inverse (an inverse that needs an
    # input no layer provides): "an output name without an inverse path is rejected with an error" - the code may reject the
    # decoration as a whole (it does so when the missing input is required), or leave that output out; both satisfy the property
    outs = [outputs] if isinstance(outputs, str) else list(outputs)
    may_reject = any(isinstance(back.get(n), refsem.Broken) for n in outs if n not in fin)
    # a chain that is unusable by itself (C18: a required field with an unreachable input, e.g. a layer's own pass-through of a name
    # it inherits and consumes) may be rejected as a whole: the decorated function is built from the same nodes
    try:
        if refsem.resolve(stack).get('dependency_error'):
            may_reject = True
    except Exception:
        may_reject = True
    # likewise a chain in which a private parameter of some layer reads a forward input that no earlier layer provides: every
    # inverse field of every layer is part of the decorated graph, so a broken one (also one that was not asked for) may make the
    # decoration fail with DependencyError (reading 7 of DESIGN.md section 7)
    for i, d in enumerate(flat):
        for spec in (d.get('params') or {}).values():
            for a in spec.get('args', []):
                if not a.startswith('_') and isinstance(look(pres[i], a, i), refsem.Broken):
                    may_reject = True
    return {'ok': res, 'single': isinstance(final, str), 'may_reject': may_reject}


def run_case(seed):
    rng = random.Random(seed)
    case = gen_case(rng)
    ins, outputs, final = normalise(case)
    world = SymWorld()
    b = Builder(world)
    stack = {'k': 'chain', 'flavour': 'chain', 'layers': case['layers']}
    rec = {'case': case}
    F0 = world.fn('F', params=ins)
    if isinstance(outputs, str):
        F = F0
    else:
        # several outputs: f returns a tuple; its i-th component is the symbolic term itemgetter:i(F(...))
        def F(*a, **kw):
            v = F0(*a, **kw)
            return tuple(App(f'itemgetter:{i}', (v,), ()) for i in range(len(outputs)))
        import inspect
        F.__signature__ = inspect.signature(F0)
    try:
        layer = b.layer(stack) if len(case['layers']) > 1 else b.layer(case['layers'][0])
        fn = layer._decorate(case['inputs'], case['outputs'], case['final'])(F)
        import inspect
        sig = list(inspect.signature(fn).parameters)
        mark = world.mark()
        v = fn(**{p: '$' + p for p in sig})
        calls = [c[0] for c in world.since(mark)]
        rec['real'] = {'ok': val_to_json(v, world), 'sig': sig, 'calls': calls}
    except Exception as e:
        rec['real'] = {'err': exc_name(e)}
    ref = reference(case)
    rec['ref'] = ref
    rec['req'] = {'op': 'loopback', 'layers': case['layers'], 'f': 'F', 'inputs': ins, 'outputs': outputs, 'final': final}
    return rec


def value_of(ref):
    vals = {n: refsem.term_value(t, _Env()) for n, t in ref['ok'].items()}
    names = list(ref['ok'])
    if ref['single']:
        return val_to_json(vals[names[0]])
    return val_to_json(tuple(vals[n] for n in names))


class _Env(dict):
    def __missing__(self, k):
        return '$' + k


def compare(rec, ans):
    """-> (oracle problem or None, model diff or None)"""
    real, ref = rec['real'], rec['ref']
    oracle = None
    if 'err' in ref:
        if 'err' not in real:
            oracle = f'the reference rejects the decoration (no inverse path / missing input) but the code returned {canon(real["ok"])[:200]}'
    else:
        want = canon(value_of(ref))
        if 'err' in real:
            if not (ref.get('may_reject') and real['err'] == 'DependencyError'):
                oracle = f'the code raised {real["err"]} but forward -> f -> inverses (reverse order) gives {want[:200]}'
        elif canon(real['ok']) != want:
            oracle = f'the code returned {canon(real["ok"])[:250]} but forward -> f -> inverses (reverse order) gives {want[:250]}'
        elif len(real['calls']) != len(set(real['calls'])):
            oracle = f'a function was executed more than once in one call: {sorted(real["calls"])}'
    model = None
    if 'error' in ans:
        model = ['driver', ans['error']]
    elif ('err' in ans) != ('err' in real):
        model = ['error', real, ans]
    elif 'err' not in ans:
        vals = [o.get('value') for n, o in ans['fields']]
        got = vals[0] if ans.get('single') and isinstance(rec['req']['final'], str) else vals
        if isinstance(rec['req']['final'], str):
            got = vals[0]
        if canon(got) != canon(real['ok']):
            model = ['value', real['ok'], got]
    return oracle, model


def run_shard(args):
    seed, n = args
    recs = [run_case(seed * 30011 + i) for i in range(n)]
    answers = driver.run_lines([r['req'] for r in recs])
    stats = {'cases': n, 'ok': 0, 'rejected': 0, 'layers': {}, 'with_inverse_params': 0}
    oracle_bad, model_bad = [], []
    distinct = set()
    for r, ans in zip(recs, answers):
        if 'err' in r['real']:
            stats['rejected'] += 1
        else:
            stats['ok'] += 1
            if len(r['case']['layers']) >= 2:
                distinct.add(json.dumps(r['case'], sort_keys=True))
        k = len(r['case']['layers'])
        stats['layers'][k] = stats['layers'].get(k, 0) + 1
        o, m = compare(r, ans)
        if o:
            oracle_bad.append({'case': r['case'], 'msg': o})
        if m:
            model_bad.append({'case': r['case'], 'diff': json.loads(json.dumps(m, default=str))})
    stats['distinct_nontrivial'] = len(distinct)
    return stats, oracle_bad, model_bad, recs[0]['case']


def run_typed_inverse(seed):
    """an inverse field with an argument typed as a FORWARD node of its own layer (`def a(a, b: Output)`, `b: Input`): it receives the forward
    value of the same call (after / before the layer), not what comes back under that name (C10: each inverse sees the values of its own
    layer as computed in the forward pass)"""
    from .paths import use_repo
    use_repo()
    rng = random.Random(seed)
    kind = rng.choice(['Output', 'Input'])
    both_back = rng.random() < 0.5          # does `f` return the name `b` as well?
    src = f'''
from connectome import Transform, inverse, Output, Input
class TL(Transform):
    __inherit__ = True
    def a(a):
        return ('fa', a)
    def b(b):
        return ('fb', b)
    @inverse
    def a(a, b: {kind}):
        return ('ia', a, b)
    @inverse
    def b(b):
        return ('ib', b)
'''
    ns = {}
    problems = []
    try:
        exec(src, ns)
        layer = ns['TL']()
        if rng.random() < 0.5:
            import connectome as c
            layer = c.Chain(layer, c.Transform(__inherit__=True))
        if both_back:
            def f(a, b):
                return ('Fa', a, b), ('Fb', a, b)
            g = layer._decorate(['a', 'b'], ['a', 'b'], final='a')(f)
            fa, fb = ('fa', '$a'), ('fb', '$b')
            want = ('ia', ('Fa', fa, fb), fb if kind == 'Output' else '$b')
        else:
            def f(a):
                return ('F', a)
            g = layer._decorate('a', 'a')(f)
            want = ('ia', ('F', ('fa', '$a')), ('fb', '$b') if kind == 'Output' else '$b')
        import inspect
        sig = list(inspect.signature(g).parameters)
        got = g(**{p: '$' + p for p in sig})
        if got != want:
            problems.append({'kind': kind, 'msg': f'inverse `a(a, b: {kind})` (f returns {"a and b" if both_back else "a"}): the decorated function returned {got!r}, '
                                                  f'forward -> f -> inverse with the forward {kind.lower()} `b` of the same call gives {want!r}'})
    except Exception as e:
        problems.append({'kind': kind, 'msg': f'inverse with an argument typed {kind} (f returns {"a and b" if both_back else "a"}): raised {exc_name(e)}: {str(e)[:150]}'})
    return problems
