"""Canonical JSON forms shared with lean/CM/Driver/Codec.lean."""
import json
from .sym import App, Imp, UserFault


class Unencodable(Exception):
    pass


def val_to_json(v, world=None):
    if v is None or isinstance(v, bool) or isinstance(v, int):
        return v
    if isinstance(v, str):
        return v
    if isinstance(v, float):
        return {'a': 'float:' + repr(v)}
    if isinstance(v, list):
        # a Python list is not a tuple (`[0] != (0,)`): encoded as the application of a reserved constructor
        return {'app': ['$list', [val_to_json(x, world) for x in v], [], []]}
    if isinstance(v, tuple):
        return [val_to_json(x, world) for x in v]
    if isinstance(v, dict):
        return {'d': [[val_to_json(k, world) for k in v], [val_to_json(x, world) for x in v.values()]]}
    import pathlib
    if isinstance(v, pathlib.PurePath):
        # a path is not the string that spells it
        return {'app': ['$path', [v.as_posix()], [], []]}
    if isinstance(v, bytes):
        return {'app': ['$bytes', [v.decode('latin1')], [], []]}
    if isinstance(v, (set, frozenset)):
        items = sorted((val_to_json(x, world) for x in v), key=lambda j: json.dumps(j, sort_keys=True))
        return {'app': ['$set', items, [], []]}
    if isinstance(v, Imp):
        return {'imp': [v.f, v.serial, 0, [val_to_json(x, world) for x in v.pos], [k for k, _ in v.kw],
                        [val_to_json(x, world) for _, x in v.kw]]}
    if isinstance(v, App):
        return {'app': [v.f, [val_to_json(x, world) for x in v.pos], [k for k, _ in v.kw],
                        [val_to_json(x, world) for _, x in v.kw]]}
    name = atom_name(v, world)
    if name is not None:
        return {'a': name}
    raise Unencodable(repr(v))


_LIB_NAMES = {}


def atom_name(v, world):
    if world is not None:
        n = world.name_of(v)
        if n is not None:
            return n
    try:
        from connectome.engine import graph as _g
        if v is _g._PLACEHOLDER.data:
            return '$placeholder'
    except Exception:
        pass
    if v is tuple:
        return 'tuple'
    if v is filter:
        return 'filter'
    if callable(v) or isinstance(v, type):
        mod = getattr(v, '__module__', '') or ''
        qn = getattr(v, '__qualname__', None) or getattr(v, '__name__', None) or type(v).__name__
        code = getattr(v, '__code__', None)
        if code is not None and '<lambda>' in qn or '<locals>' in str(qn):
            import hashlib
            digest = hashlib.sha1(code.co_code + repr(code.co_consts).encode()).hexdigest()[:8] if code else ''
            # closure cells make a library lambda specific
            cells = []
            for c in (getattr(v, '__closure__', None) or ()):
                try:
                    cells.append(json.dumps(val_to_json(c.cell_contents, world), sort_keys=True))
                except Exception:
                    cells.append('?')
            return f'{mod}.{qn}@{digest}[{",".join(cells)}]'
        return f'{mod}.{qn}'
    return None


def hash_to_json(value, world=None):
    """`NodeHash.value` (nested tuples, type tag first) -> JSON tree."""
    try:
        t = value[0]
        if t == 0:
            _, data = value
            return {'leaf': val_to_json(data, world)}
        if t == 1:
            _, func, args, kw = value
            return {'apply': [fn_name(func, world), [hash_to_json(a, world) for a in args], list(kw)]}
        if t == 2:
            _, inner = value
            return {'graph': hash_to_json(inner, world)}
        if t == 3:
            return {'custom': [value[1], [hash_to_json(c, world) for c in value[2:]]]}
    except Unencodable:
        raise
    except Exception:
        pass
    # not one of the four layouts of node_hash.py: reported as it is (never equal to a model hash)
    return {'malformed': repr(value)[:200]}


def fn_name(func, world):
    n = atom_name(func, world)
    if n is None:
        raise Unencodable(repr(func))
    return n


def exc_name(e):
    if isinstance(e, UserFault):
        return 'user:' + e.name
    try:
        from connectome.engine.base import HashError
        if isinstance(e, HashError):
            return 'HashError'
    except Exception:
        pass
    return type(e).__name__


def renumber_impure(j):
    """Rename the tags of impure results by order of first appearance (both sides of a comparison)."""
    table = {}

    def go(x):
        if isinstance(x, list):
            return [go(y) for y in x]
        if isinstance(x, dict):
            if 'imp' in x:
                f, a, b, pos, kwn, kwv = x['imp']
                pos, kwv = go(pos), go(kwv)
                key = (a, b)
                if key not in table:
                    table[key] = len(table)
                return {'imp': [f, table[key], 0, pos, kwn, kwv]}
            return {k: go(v) for k, v in x.items()}
        return x

    return go(j)


def canon(j):
    return json.dumps(renumber_impure(j), sort_keys=True, separators=(',', ':'))
