"""S-REL: dataset-wide layers through the public API against CM.Model.Rel (correspondence) and the reference
evaluator of rel.py (direct oracle of C14-C17); plus hash transparency checks on the real code."""
import itertools, json, random, re
from . import rel, driver
from .pipeline import Builder
from .codec import canon, exc_name, hash_to_json, val_to_json

FIELDS_EXTRA = ['x', 'y', 'z', 't', 'k1', 'k2', 'id']


def model_hash_id(values):
    return '#' + '|'.join(f'{len(v)}:{v}' for v in values)


def hash_candidates(desc):
    """sha256 ids the real code can produce for this description -> the model's injective encoding"""
    vals = set(rel.KEYS)
    def walk(d):
        if isinstance(d, dict):
            if 'table' in d:
                for k, v in d['table']:
                    if isinstance(v, str):
                        vals.add(v)
            for v in d.values():
                walk(v)
        elif isinstance(d, list):
            for v in d:
                walk(v)
    walk(desc)
    out = {}
    vals = sorted(vals)
    for n in (2,):
        for combo in itertools.product(vals, repeat=n):
            out[rel.to_hash_id(combo)] = model_hash_id(combo)
    return out


HEX = re.compile(r'[0-9a-f]{64}')


def dehash(text, table):
    return HEX.sub(lambda m: table.get(m.group(0), m.group(0)), text)


def last_kind(d):
    return d['k'] if d['k'] != 'chain' else d['layers'][-1]['k']


def run_case(seed, kind=None):
    rng = random.Random(seed)
    d = rel.gen_rel(rng, kind)
    b = Builder()
    rec = {'desc': d, 'kind': last_kind(d), 'diffs': [], 'hash_problems': [], 'memo_problems': []}
    try:
        history, decoy = None, None
        if d['k'] == 'chain' and len(d['layers']) >= 2 and d['layers'][-1]['k'] in ('filter', 'keep', 'drop', 'groupby', 'check_ids', 'split') \
                and rng.random() < 0.3:
            # the last layer is ONE object that was composed before with another dataset exposing the same ids and field names
            # with other values, and evaluated there: at its position in this pipeline it must behave as an independent copy
            up_desc = d['layers'][0] if len(d['layers']) == 2 else {'k': 'chain', 'flavour': 'chain', 'layers': d['layers'][:-1]}
            shared = b.layer(d['layers'][-1])
            try:
                names = [f for f in rel.ref(up_desc).fields if f != 'id']
                # the key fields (tables over rel.KEYS) are rotated, the other fields are wrapped symbolically
                rot = [[[k], rel.KEYS[(j + 1) % len(rel.KEYS)]] for j, k in enumerate(rel.KEYS)]
                swap = {'k': 'transform', 'cls': 'HistSwap',
                        'fields': {f: ({'args': [f], 'f': 'hist.' + f, 'table': rot} if f.startswith('k') else {'args': [f], 'f': 'hist.' + f})
                                   for f in names},
                        'params': {}, 'cargs': {}, 'defaults': {}, 'inherit': True}
                decoy = b.layer(up_desc) >> b.layer(swap) >> shared
                history = 'built'
                decoy.ids
                history = 'evaluated'
            except Exception:
                pass
            layer = b.layer(up_desc) >> shared
        else:
            layer = b.layer(d)
        cerr = None
        rec['history'] = history
    except Exception as e:
        cerr, layer = exc_name(e), None
    try:
        r = rel.ref(d)
        rerr = None
    except rel.RErr as e:
        rerr, r = e.kind, None
    rec['construct_err'] = cerr
    if cerr or rerr:
        if cerr != rerr:
            rec['diffs'].append(['construct', cerr, rerr])
        rec['fields'], rec['query'] = [], []
        return rec, b, layer
    fields = sorted(set(r.fields) | set(FIELDS_EXTRA))
    q = list(rel.UNIVERSE + rel.FOREIGN)
    try:
        q += [x for x in r.ids() if x not in q]
    except rel.RErr:
        pass
    rec['fields'], rec['query'] = fields, q
    a = rel.observe_rel(b, layer, fields, q)
    e = rel.ref_observe(r, fields, q)
    rec['real'] = a
    for key in ('ids', 'ids_err', 'dir'):
        if canon(a.get(key)) != canon(e.get(key)):
            rec['diffs'].append([key, a.get(key), e.get(key)])
    for f in fields:
        if canon(a['values'][f]) != canon(e['values'][f]):
            av, ev = a['values'][f], e['values'][f]
            bad = [i for i in q if canon(av.get(i)) != canon(ev.get(i))] if 'compile_err' not in av and 'compile_err' not in ev else []
            rec['diffs'].append([f'value:{f}', {i: av.get(i) for i in bad[:3]} or av, {i: ev.get(i) for i in bad[:3]} or ev])
    if 'ids_changed' in a:
        rec['diffs'].append(['ids-after-evaluations', a['ids_changed'], a.get('ids')])
    if decoy is not None and history == 'evaluated' and rec['kind'] in ('groupby', 'split') and 'ids' in a:
        # the id mapping is kept once per pipeline object: using the other pipeline built from the same layer object in between
        # does not make this one compute its mapping again
        try:
            decoy.ids
            mark = b.world.mark()
            layer.ids
            again = [c[0] for c in b.world.since(mark)]
            if again:
                rec['memo_problems'] = [f'{rec["kind"]}: one layer object in two pipelines: after the other pipeline was used, reading ids '
                                        f'again re-executed {sorted(set(again))} although this pipeline object had computed its id mapping']
        except Exception:
            pass
    if rec['kind'] in ('join', 'groupby', 'split') and 'ids' in a and a.get('ids_again_calls'):
        rec['memo_problems'] = [f'{rec["kind"]}: reading ids again re-executed {sorted(set(a["ids_again_calls"]))} although the id '
                                f'mapping is kept in memory once per pipeline object']
    if rec['kind'] == 'join' and a.get('wide_calls'):
        f_, i_, wide = a['wide_calls'][0]
        rec['memo_problems'] = rec['memo_problems'] + [f'join: one call {f_}({i_!r}) executed user functions for several entries {wide}: the id mapping, kept once per '
                                                       f'pipeline object, was computed again']
    hash_checks(rec, b, layer, d, r)
    if rec['kind'] == 'split' and d['k'] == 'chain' and 'ids' in a and history is None:
        split_variant_check(rec, b, layer, d, a)
    return rec, b, layer


def split_variant_check(rec, b, layer, d, a):
    """a second Split over the same dataset whose __split__ gives the same new ids but assigns the parts differently: a field that
    reads `__part__` is evaluated on another part, so for a new id on which the two pipelines return different values the node hashes
    must differ too (the hash is the key of every persistent cache the two pipelines may share)"""
    import copy
    sp = d['layers'][-1]
    if not any('__part__' in f.get('args', []) for f in sp.get('fields', {}).values()):
        return
    table2, changed = [], False
    for vals, pairs in sp['split']['table']:
        parts = [p_[1] for p_ in pairs]
        if len({json.dumps(q, sort_keys=True) for q in parts}) >= 2:
            changed = True
            parts = parts[1:] + parts[:1]
        table2.append([vals, [[p_[0], q] for p_, q in zip(pairs, parts)]])
    if not changed:
        return
    sp2 = copy.deepcopy(sp)
    sp2['split']['table'] = table2
    sp2['split']['f'] = (sp['split'].get('f') or sp['cls'] + '.__split__') + '#parts-rotated'
    try:
        layer2 = b.layer({'k': 'chain', 'flavour': 'chain', 'layers': d['layers'][:-1] + [sp2]})
        ids = [i for i in (a.get('ids') or []) if isinstance(i, str)]
        for f, spec in sp['fields'].items():
            if '__part__' not in spec.get('args', []):
                continue
            f1, f2 = layer._compile(f), layer2._compile(f)
            for i in ids[:6]:
                try:
                    v1, v2 = canon(val_to_json(f1(i), b.world)), canon(val_to_json(f2(i), b.world))
                    # persistent digests: library-internal lambdas are fresh objects per connection, equal by code
                    from .suite_pickle import digest_of
                    h1, h2 = digest_of(f1, [i]), digest_of(f2, [i])
                except Exception:
                    continue
                if v1 != v2 and h1 == h2:
                    rec['hash_problems'].append(f'Split: two pipelines whose __split__ assign the new id {i!r} different parts return different values '
                                                f'for {f}({i!r}) ({v1[:60]} vs {v2[:60]}) under the same persistent digest')
                    return
    except Exception:
        pass


def node_hash(layer, f, i):
    fn = layer._compile(f)
    return fn.get_hash(i)[0]


def hash_checks(rec, b, layer, d, r):
    """hash transparency on the real code: Merge reports the owner's hash (C14); Filter and CheckIds leave the hashes
    of the other fields as they are (C15)"""
    try:
        if d['k'] == 'merge':
            parts = [b.layer(p) for p in d['parts']]
            refs = [rel.ref(p) for p in d['parts']]
            for f in r.fields:
                if f == 'id':
                    continue
                for part, pr in zip(parts, refs):
                    for i in pr.ids():
                        if node_hash(layer, f, i) != node_hash(part, f, i):
                            rec['hash_problems'].append(f'Merge: hash of {f}({i}) differs from the owning dataset\'s hash')
                            return
        elif d['k'] == 'chain' and d['layers'][-1]['k'] in ('filter', 'keep', 'drop', 'check_ids'):
            before = b.layer({'k': 'chain', 'flavour': 'chain', 'layers': d['layers'][:-1]}) if len(d['layers']) > 2 else b.layer(d['layers'][0])
            for f in r.fields:
                if f == 'id' and d['layers'][-1]['k'] == 'check_ids':
                    pass
                for i in r.ids():
                    if node_hash(layer, f, i) != node_hash(before, f, i):
                        rec['hash_problems'].append(f'{d["layers"][-1]["k"]}: hash of {f}({i}) changed')
                        return
    except rel.RErr:
        pass
    except Exception as e:
        rec['hash_problems'].append('hash check failed: ' + exc_name(e) + ' ' + str(e)[:200])


def compare_model(rec, ans):
    if 'error' in ans:
        return [['driver', None, ans['error']]]
    table = hash_candidates(rec['desc'])
    diffs = []
    if rec['construct_err'] or 'construct_err' in ans:
        if rec['construct_err'] != ans.get('construct_err'):
            diffs.append(['construct', rec['construct_err'], ans.get('construct_err')])
        return diffs
    a = json.loads(dehash(json.dumps(rec['real']), table))
    # the order of sha-based ids differs from the order of the model's encoding: compared as sets
    # (sortedness of the real ids is checked by the reference evaluator)
    hashed = any(isinstance(i, str) and i.startswith('#') for i in (a.get('ids') or []))
    for key in ('ids', 'ids_err', 'dir'):
        x, y = a.get(key), ans.get(key)
        if key == 'ids' and hashed and x is not None and y is not None:
            x, y = sorted(x), sorted(y)
        if canon(x) != canon(y):
            diffs.append([key, x, y])
    for f in rec['fields']:
        if canon(a['values'][f]) != canon(ans['values'][f]):
            diffs.append([f'value:{f}', a['values'][f], ans['values'][f]])
    return diffs


def run_dynamic_ids(seed):
    """a Source whose ids come from an @impure listing >> CheckIds: after the listing changes, every field follows the
    *current* ids (C15: KeyError exactly for ids outside the current ids)"""
    rng = random.Random(seed)
    ids1 = rng.sample(rel.UNIVERSE, rng.randint(1, 4))
    ids2 = rng.sample(rel.UNIVERSE, rng.randint(1, 4))
    src = {'k': 'source', 'cls': 'DynS', 'ids': ids1, 'ids_impure': True, 'fields': {'x': {'args': ['i']}}, 'params': {}, 'cargs': {}, 'defaults': {}}
    d = {'k': 'chain', 'flavour': 'chain', 'layers': [src, {'k': 'check_ids'}]}
    b = Builder()
    problems = []
    try:
        layer = b.layer(d)
        fn = layer._compile('x')
        for ids in (ids1, ids2, ids1):
            b.world.consts[b.ids_fn['DynS']] = tuple(ids)
            cur = tuple(layer.ids)
            for i in rel.UNIVERSE:
                try:
                    fn(i)
                    ok = True
                except KeyError:
                    ok = False
                if ok != (i in cur):
                    problems.append({'desc': d, 'ids_then': ids1, 'ids_now': list(cur),
                                     'msg': f'CheckIds after the id listing changed to {list(cur)}: x({i!r}) '
                                            f'{"was accepted" if ok else "raised KeyError"} although {i!r} is {"not " if not (i in cur) else ""}in the current ids'})
                    return problems
    except Exception as e:
        problems.append({'desc': d, 'msg': 'raised ' + exc_name(e) + ': ' + str(e)[:150]})
    return problems


def run_typed_ids(seed):
    """Merge of Sources whose ids are not strings (integers of different lengths, also negative): the exposed ids are the sorted
    union in the order of the ids themselves, every id is routed to its owner (C14), also through a nested Merge"""
    rng = random.Random(seed)
    pool = rng.sample([2, 9, 10, 30, 100, 1000, -1, -20, 7, 15, 205, 33], rng.randint(3, 8))
    n_parts = rng.randint(2, 3)
    parts = [[] for _ in range(n_parts)]
    for i in pool:
        parts[rng.randrange(n_parts)].append(i)
    parts = [p for p in parts if p]
    if len(parts) < 2:
        return []
    srcs = [{'k': 'source', 'cls': f'TI{j}', 'ids': ids, 'fields': {'x': {'args': ['i'], 'f': f'TI{j}.x'}}, 'params': {}, 'cargs': {}, 'defaults': {}}
            for j, ids in enumerate(parts)]
    d = {'k': 'merge', 'parts': srcs}
    if len(srcs) == 3 and rng.random() < 0.5:
        d = {'k': 'merge', 'parts': [{'k': 'merge', 'parts': srcs[:2]}, srcs[2]]}
    problems = []
    try:
        b = Builder()
        layer = b.layer(d)
        got = tuple(layer.ids)
        want = tuple(sorted(i for p in parts for i in p))
        if got != want:
            problems.append({'desc': d, 'msg': f'Merge of datasets with ids {parts} exposes ids {list(got)}, the sorted union is {list(want)}'})
        fn = layer._compile('x')
        for j, ids in enumerate(parts):
            for i in ids:
                v = canon(val_to_json(fn(i), b.world))
                w = canon({'app': [f'TI{j}.x', [i], [], []]})
                if v != w:
                    problems.append({'desc': d, 'msg': f'x({i!r}) of the merged dataset is {v[:120]}, the owner returns {w[:120]}'})
                    return problems
        # a key of another type that merely PRINTS like an owned id (the string '10' for the id 10, a path, bytes) is owned by nobody
        import pathlib
        owned = {i for p in parts for i in p}
        for i in sorted(owned)[:4]:
            for twin in (str(i), pathlib.PurePosixPath(str(i)), str(i).encode()):
                try:
                    v = fn(twin)
                except Exception:
                    continue
                problems.append({'desc': d, 'msg': f'x({twin!r}) of a Merge whose ids are {sorted(owned)} returned {canon(val_to_json(v, b.world))[:120]}: '
                                                   f'no dataset owns that key (it only prints like the id {i!r}); unknown ids must be rejected'})
                return problems
    except Exception as e:
        problems.append({'desc': d, 'msg': 'Merge with non-string ids raised ' + exc_name(e) + ': ' + str(e)[:150]})
    return problems


def run_byvalue_merge(seed):
    """Merge of Sources with a field hashed by value (`hash_by_value`) whose underlying data changes between calls: for every
    id, before and after every change, the merged dataset reports the value AND the node hash the owning dataset reports now
    (C14: caches are shared with the unmerged dataset), also through a nested Merge and a Transform on top"""
    rng = random.Random(seed)
    n_parts = rng.randint(2, 3)
    pool = rng.sample(rel.UNIVERSE, rng.randint(n_parts, min(6, len(rel.UNIVERSE))))
    parts = [[] for _ in range(n_parts)]
    for k, i in enumerate(pool):
        parts[k % n_parts].append(i)
    srcs = [{'k': 'source', 'cls': f'BV{j}', 'ids': ids, 'params': {}, 'cargs': {}, 'defaults': {},
             'fields': {'t': {'args': ['i'], 'f': f'BV{j}.t', 'byvalue': True, 'table': [[[i], f'v0-{i}'] for i in ids]},
                        'x': {'args': ['i'], 'f': f'BV{j}.x'}}}
            for j, ids in enumerate(parts)]
    d = {'k': 'merge', 'parts': srcs}
    if n_parts == 3 and rng.random() < 0.5:
        d = {'k': 'merge', 'parts': [{'k': 'merge', 'parts': srcs[:2]}, srcs[2]]}
    problems = []
    try:
        b = Builder()
        owners = [b.layer(s_) for s_ in srcs]
        merged = b.layer(d)
        fm = merged._compile('t')
        fo = [o._compile('t') for o in owners]
        for step in range(3):
            order = list(pool)
            rng.shuffle(order)
            for i in order:
                j = next(k for k, ids in enumerate(parts) if i in ids)
                hv_m, hv_o = fm.get_hash(i)[0], fo[j].get_hash(i)[0]
                v_m, v_o = canon(val_to_json(fm(i), b.world)), canon(val_to_json(fo[j](i), b.world))
                if v_m != v_o:
                    problems.append({'desc': d, 'msg': f'by-value field after {step} data changes: merged t({i!r}) = {v_m[:80]}, the owner returns {v_o[:80]}'})
                    return problems
                if hv_m != hv_o:
                    problems.append({'desc': d, 'msg': f'by-value field after {step} data changes: the node hash Merge reports for t({i!r}) '
                                                       f'is not the hash the owning dataset reports now (value {v_o[:60]})'})
                    return problems
            # the data behind some ids changes
            for i in rng.sample(pool, rng.randint(1, len(pool))):
                j = next(k for k, ids in enumerate(parts) if i in ids)
                b.world.tables[f'BV{j}.t'][(i,)] = f'v{step + 1}-{i}'
    except Exception as e:
        problems.append({'desc': d, 'msg': 'Merge with a by-value field raised ' + exc_name(e) + ': ' + str(e)[:150]})
    return problems


def run_join_shared_cache(seed):
    """Joins of the same two datasets on the same keys in all four modes sharing ONE storage through `cache=CacheEdge(storage)`,
    evaluated in a random order: each must have the ids and the fields of its own mode (C16)"""
    rng = random.Random(seed)
    problems = []
    try:
        d = rel.gen_rel(rng, 'join')
        if d['k'] != 'join':
            return problems
        from .paths import use_repo
        use_repo()
        from connectome.cache import MemoryCache
        from connectome.engine import CacheEdge
        import connectome as c
        b = Builder()
        storage = MemoryCache(None)
        modes = ['inner', 'left', 'right', 'outer']
        rng.shuffle(modes)
        for how in modes:
            dm = dict(d, how=how)
            try:
                r, rerr = rel.ref(dm), None
            except rel.RErr as e:
                r, rerr = None, e.kind
            try:
                layer = c.Join(b.layer(d['left']), b.layer(d['right']), d['on'], how=how, cache=CacheEdge(storage))
                cerr = None
            except Exception as e:
                layer, cerr = None, exc_name(e)
            if cerr or rerr:
                if cerr != rerr:
                    problems.append({'desc': dm, 'msg': f'Join(how={how!r}, cache=shared) construction: {cerr}, reference {rerr}'})
                continue
            fields = sorted(set(r.fields))
            q = list(rel.UNIVERSE + rel.FOREIGN)
            try:
                q += [x for x in r.ids() if x not in q]
            except rel.RErr:
                pass
            a, e = rel.observe_rel(b, layer, fields, q), rel.ref_observe(r, fields, q)
            for key in ('ids', 'ids_err'):
                if canon(a.get(key)) != canon(e.get(key)):
                    problems.append({'desc': dm, 'order': modes,
                                     'msg': f'Joins in the modes {modes} (evaluated in this order) sharing one cache: how={how!r} has {key} {canon(a.get(key))[:120]}, '
                                            f'the reference gives {canon(e.get(key))[:120]}'})
                    return problems
            for f in fields:
                if canon(a['values'][f]) != canon(e['values'][f]):
                    problems.append({'desc': dm, 'order': modes, 'msg': f'Joins sharing one cache ({modes}): field {f} of how={how!r} differs from the reference'})
                    return problems
    except Exception as e:
        problems.append({'desc': None, 'msg': 'join shared-cache scenario raised ' + exc_name(e) + ': ' + str(e)[:150]})
    return problems


def run_nested_join(seed):
    """a Join whose side is itself a Join (on the same single field or on other fields), the nested one with the default or a custom
    injective `to_key`: ids and fields of the outer join against the reference relational join on the VALUES of the key fields"""
    rng = random.Random(seed)
    problems = []
    d = rel.gen_rel(rng, 'join')
    if d['k'] != 'join' or len(d['on']) != 1:
        return problems
    on = d['on']
    nested = dict(d, how=rng.choice(['inner', 'outer', 'left', 'right']))
    if rng.random() < 0.6:
        nested['key_prefix'] = rng.choice(['p:', 'key-'])
    third = rel.gen_source(rng, 77, rel.gen_ids(rng, 1)[0], ['w'])
    tbl = []
    for n, i in enumerate(rel.UNIVERSE + rel.FOREIGN):
        tbl.append([[i], f'{on[0]}-{(n * 3 + len(on[0]) + rng.choice([0, 0, 3])) % 9}'])
    third['fields'][on[0]] = {'args': ['i'], 'table': tbl}
    for kf in list(third['fields']):
        if kf.startswith('k') and kf not in on:
            del third['fields'][kf]
    how = rng.choice(['inner', 'left', 'right', 'outer'])
    outer = {'k': 'join', 'left': nested, 'right': third, 'on': on, 'how': how} if rng.random() < 0.5 else \
        {'k': 'join', 'left': third, 'right': nested, 'on': on, 'how': how}
    try:
        r, rerr = rel.ref(outer), None
        r.ids()
    except rel.RErr as e:
        r, rerr = None, e.kind
    b = Builder()
    try:
        layer = b.layer(outer)
        layer.ids
        cerr = None
    except Exception as e:
        layer, cerr = None, exc_name(e)
    if cerr or rerr:
        if cerr != rerr:
            problems.append({'desc': outer, 'msg': f'Join of a Join: construction {cerr}, reference {rerr}'})
        return problems
    fields = sorted(set(r.fields))
    q = list(rel.UNIVERSE + rel.FOREIGN)
    q += [x for x in r.ids() if x not in q]
    a, e = rel.observe_rel(b, layer, fields, q), rel.ref_observe(r, fields, q)
    for key in ('ids', 'ids_err'):
        if canon(a.get(key)) != canon(e.get(key)):
            problems.append({'desc': outer, 'msg': f'Join of a Join (nested to_key prefix {nested.get("key_prefix")!r}, how={how!r}): {key} '
                                                   f'{canon(a.get(key))[:160]}, the reference gives {canon(e.get(key))[:160]}'})
            return problems
    for f in fields:
        if canon(a['values'][f]) != canon(e['values'][f]):
            problems.append({'desc': outer, 'msg': f'Join of a Join (nested to_key prefix {nested.get("key_prefix")!r}, how={how!r}): field {f}: '
                                                   f'{canon(a["values"][f])[:160]}, the reference gives {canon(e["values"][f])[:160]}'})
            return problems
    return problems


def run_shard(args):
    seed, n, kinds = args
    recs = []
    for i in range(n):
        kind = kinds[i % len(kinds)] if kinds else None
        rec, b, layer = run_case(seed * 104729 + i, kind)
        recs.append(rec)
    reqs = [{'op': 'rel', 'desc': r['desc'], 'fields': r['fields'],
             'query': [dehash(q, hash_candidates(r['desc'])) for q in r['query']]} for r in recs]
    answers = driver.run_lines(reqs)
    stats = {'cases': 0, 'evaluations': 0, 'kinds': {}, 'construct_err': 0, 'errors': {}, 'distinct': set()}
    oracle_bad, model_bad, hash_bad, memo_bad = [], [], [], []
    for rec, ans in zip(recs, answers):
        stats['cases'] += 1
        stats['kinds'][rec['kind']] = stats['kinds'].get(rec['kind'], 0) + 1
        if rec['construct_err']:
            stats['construct_err'] += 1
        if 'real' in rec:
            for f, vs in rec['real']['values'].items():
                if 'compile_err' in vs:
                    continue
                for i, v in vs.items():
                    stats['evaluations'] += 1
                    if 'err' in v:
                        stats['errors'][v['err']] = stats['errors'].get(v['err'], 0) + 1
            ids = rec['real'].get('ids')
            if ids and len(ids) >= 2:
                stats['distinct'].add(json.dumps(rec['desc'], sort_keys=True))
        if rec['diffs']:
            oracle_bad.append({'desc': rec['desc'], 'diffs': json.loads(json.dumps(rec['diffs'][:3], default=str))})
        if rec['hash_problems']:
            hash_bad.append({'desc': rec['desc'], 'problems': rec['hash_problems'][:3]})
        if rec['memo_problems']:
            memo_bad.append({'desc': rec['desc'], 'problems': rec['memo_problems'][:3]})
        md = compare_model(rec, ans)
        if md:
            model_bad.append({'desc': rec['desc'], 'diffs': json.loads(json.dumps(md[:3], default=str))})
    stats['distinct_nontrivial'] = len(stats.pop('distinct'))
    if kinds and 'merge' in kinds:
        for i in range(max(2, n // 5)):
            for p in run_typed_ids(seed * 11 + i):
                oracle_bad.append({'desc': p['desc'], 'diffs': [['typed-ids', p['msg']]]})
        stats['typed_ids_cases'] = max(2, n // 5)
        for i in range(max(2, n // 5)):
            for p in run_byvalue_merge(seed * 13 + i):
                hash_bad.append({'desc': p['desc'], 'problems': [p['msg']]})
        stats['byvalue_merge_cases'] = max(2, n // 5)
    if kinds and 'join' in kinds:
        for i in range(max(2, n // 4)):
            for p in run_join_shared_cache(seed * 19 + i):
                oracle_bad.append({'desc': p['desc'], 'diffs': [['join-shared-cache', p['msg']]]})
        stats['join_shared_cache_cases'] = max(2, n // 4)
        for i in range(max(2, n // 3)):
            for p in run_nested_join(seed * 23 + i):
                oracle_bad.append({'desc': p['desc'], 'diffs': [['nested-join', p['msg']]]})
        stats['nested_join_cases'] = max(2, n // 3)
        for i in range(max(2, n // 3)):
            for p in run_tuple_key_join(seed * 53 + i):
                oracle_bad.append({'desc': p['desc'], 'diffs': [['tuple-key-join', p['msg']]]})
        stats['tuple_key_join_cases'] = max(2, n // 3)
        for i in range(max(2, n // 3)):
            for p in run_mixed_numeric_join(seed * 61 + i):
                oracle_bad.append({'desc': p['desc'], 'diffs': [['mixed-numeric-join', p['msg']]]})
    if kinds and 'groupby' in kinds:
        for i in range(max(2, n // 4)):
            for p in run_typed_groupby(seed * 59 + i):
                oracle_bad.append({'desc': p['desc'], 'diffs': [['typed-groupby', p['msg']]]})
        stats['typed_groupby_cases'] = max(2, n // 4)
    if kinds and 'split' in kinds:
        for i in range(max(2, n // 4)):
            for p in run_typed_split(seed * 43 + i):
                oracle_bad.append({'desc': p['desc'], 'diffs': [['typed-split', p['msg']]]})
        stats['typed_split_cases'] = max(2, n // 4)
    if kinds and 'check_ids' in kinds:
        for i in range(max(2, n // 5)):
            for p in run_dynamic_ids(seed * 7 + i):
                oracle_bad.append({'desc': p['desc'], 'diffs': [['dynamic-ids', p['msg']]]})
        stats['dynamic_ids_cases'] = max(2, n // 5)
        for i in range(max(2, n // 4)):
            for p in run_checkids_widen(seed * 47 + i):
                oracle_bad.append({'desc': p['desc'], 'diffs': [['checkids-widen', p['msg']]]})
        stats['checkids_widen_cases'] = max(2, n // 4)
        for i in range(max(2, n // 4)):
            for p in run_checkids_typed(seed * 67 + i):
                oracle_bad.append({'desc': p['desc'], 'diffs': [['checkids-typed', p['msg']]]})
    sample = next(({'desc': r['desc'], 'ids': r['real'].get('ids')} for r in recs if 'real' in r), None)
    return stats, oracle_bad, model_bad, hash_bad, sample, memo_bad


def run_typed_split(seed):
    """Split whose `__split__` yields new ids that are not strings (integers of different lengths, (id, index) tuples with more than
    ten parts): the exposed ids are the sorted new ids in the order of the ids themselves, each mapped to its (old id, part) (C17)"""
    rng = random.Random(seed)
    olds = rng.sample(['a', 'b', 'c'], rng.randint(1, 3))
    mode = rng.choice(['int', 'tuple'])
    table, want = [], {}
    base = 0
    for n, o in enumerate(sorted(olds)):
        k = rng.choice([0, 1, 3, 12])
        pairs = []
        for j in range(k):
            new = (base + j * rng.choice([1, 7]) if mode == 'int' else [o, j])
            if mode == 'int' and new in want:
                continue        # new ids are unique over the whole dataset (a collision is rejected: another scenario)
            pairs.append([new, j])
            want[new if mode == 'int' else (o, j)] = (o, j)
        base += rng.choice([9, 95, 100])
        table.append([[o], pairs])
    src = {'k': 'source', 'cls': 'TS', 'ids': sorted(olds), 'fields': {'x': {'args': ['i'], 'f': 'TS.x'}}, 'params': {}, 'cargs': {}, 'defaults': {}}
    sp = {'k': 'split', 'cls': 'TSp', 'split': {'args': ['id'], 'table': table}, 'fields': {'x': {'args': ['x', '__part__'], 'f': 'TSp.x'}},
          'params': {}, 'cargs': {}, 'defaults': {}}
    d = {'k': 'chain', 'flavour': 'chain', 'layers': [src, sp]}
    problems = []
    if len(set(want)) < 2:
        return problems
    try:
        b = Builder()
        layer = b.layer(d)
        got = tuple(layer.ids)
        exp = tuple(sorted(want))
        if got != exp:
            problems.append({'desc': d, 'msg': f'Split producing the new ids {sorted(want)[:14]} exposes ids {list(got)[:14]}, the sorted new ids are {list(exp)[:14]}'})
            return problems
        fn = layer._compile('x')
        for new, (o, j) in list(want.items())[:6]:
            v = canon(val_to_json(fn(new), b.world))
            w = canon({'app': ['TSp.x', [{'app': ['TS.x', [o], [], []]}, j], [], []]})
            if v != w:
                problems.append({'desc': d, 'msg': f'x({new!r}) of the split dataset is {v[:120]}, the entry {o!r} with part {j} gives {w[:120]}'})
                return problems
    except Exception as e:
        problems.append({'desc': d, 'msg': 'Split with non-string new ids raised ' + exc_name(e) + ': ' + str(e)[:150]})
    return problems


def run_checkids_widen(seed):
    """... >> CheckIds >> a Transform that WIDENS `ids` (re-adds excluded entries, adds foreign ones) >> Filter: the predicate reads fields
    that CheckIds guards, so listing the ids raises KeyError as soon as a widened id is outside the ids CheckIds saw; with nothing
    foreign the kept ids are the reference's (C15: CheckIds rejects every key outside ids, whoever asks)"""
    rng = random.Random(seed)
    ids = ['i1', 'i2', 'i3', 'i4']
    keep = rng.sample(ids, rng.randint(2, 4))
    added = rng.choice([[], [], ['zz'], [i for i in ids if i not in keep][:1], ['zz', 'i1']])
    added = [a for a in added if a not in keep]
    src = {'k': 'source', 'cls': 'CW', 'ids': ids, 'params': {}, 'cargs': {}, 'defaults': {},
           'fields': {'x': {'args': ['i'], 'f': 'CW.x'}, 'kk': {'args': ['i'], 'f': 'CW.kk', 'table': [[[i], 'gh'[n % 2]] for n, i in enumerate(ids + ['zz'])]}}}
    kept = [i for i in ids if i in keep]
    widened = kept + added
    widen = {'k': 'transform', 'cls': 'CWW', 'fields': {'ids': {'args': ['ids'], 'f': 'CWW.ids', 'table': [[[kept], widened]], 'meta': True}},
             'params': {}, 'cargs': {}, 'defaults': {}, 'inherit': True}
    pred_field = rng.choice(['kk', 'x', 'id'])
    pred = {'k': 'filter', 'f': 'cwpred', 'args': [pred_field]}
    if pred_field == 'kk':
        pred['table'] = [[['g'], True], [['h'], False]]         # otherwise symbolic: every verdict is truthy
    layers = [src, {'k': 'keep', 'ids': keep}, {'k': 'check_ids'}, widen, pred]
    d = {'k': 'chain', 'flavour': 'chain', 'layers': layers}
    problems = []
    try:
        b = Builder()
        layer = b.layer(d)
        try:
            got = ('ok', tuple(layer.ids))
        except Exception as e:
            got = ('err', exc_name(e))
        if added:
            want = ('err', 'KeyError')          # also `id` is a field CheckIds guards
        elif pred_field == 'kk':
            want = ('ok', tuple(i for i in widened if 'gh'[(ids + ['zz']).index(i) % 2] == 'g'))
        else:
            want = ('ok', tuple(widened))
        if got != want:
            problems.append({'desc': d, 'msg': f'keep{keep} >> CheckIds >> ids widened by {added} >> Filter({pred_field}): ids gives {got}, expected {want} '
                                               f'(a field guarded by CheckIds raises KeyError for every key outside the ids it saw)'})
    except Exception as e:
        problems.append({'desc': d, 'msg': 'CheckIds/widen scenario raised ' + exc_name(e) + ': ' + str(e)[:150]})
    return problems


def run_tuple_key_join(seed):
    """Join on ONE field whose values are tuples (a (patient, study) pair): the ids of the join are those tuples (the default `to_key` of a single
    field is the value itself), by mode; every field is served from the matching rows (C16)"""
    rng = random.Random(seed)
    paths_ = __import__('cv.paths', fromlist=['x'])
    paths_.use_repo()
    import connectome as c
    keys = [('p%d' % (k // 2), 's%d' % (k % 2)) for k in range(6)]
    lk = rng.sample(keys, rng.randint(2, 4))
    rk = rng.sample(keys, rng.randint(2, 4))
    lids = [f'l{j}' for j in range(len(lk))]
    rids = [f'r{j}' for j in range(len(rk))]
    lmap, rmap = dict(zip(lids, lk)), dict(zip(rids, rk))
    one = rng.random() < 0.3
    if one:
        lmap = {i: (v[0],) for i, v in lmap.items()}
        rmap = {i: (v[0],) for i, v in rmap.items()}
        if len(set(lmap.values())) < len(lmap) or len(set(rmap.values())) < len(rmap):
            return []
    left = c.Transform(ids=c.meta(lambda: tuple(lids)), id=lambda id: id, pair=lambda id: lmap[id], x=lambda id: 'x-' + id)
    right = c.Transform(ids=c.meta(lambda: tuple(rids)), id=lambda id: id, pair=lambda id: rmap[id], z=lambda id: 'z-' + id)
    problems = []
    how = rng.choice(['inner', 'left', 'right', 'outer'])
    try:
        j = c.Join(left, right, 'pair', how=how)
        ls, rs = set(lmap.values()), set(rmap.values())
        want = {'inner': ls & rs, 'left': ls, 'right': rs, 'outer': ls | rs}[how]
        got = tuple(j.ids)
        if got != tuple(sorted(want)):
            problems.append({'desc': {'left': lmap, 'right': rmap, 'how': how},
                             'msg': f'Join(how={how!r}) on one tuple-valued field: ids {got[:4]!r}..., the keys chosen by the mode are {sorted(want)[:4]!r}...'})
            return problems
        inv_l = {v: i for i, v in lmap.items()}
        for key in sorted(ls & rs)[:3]:
            if j.pair(key) != key or j.x(key) != 'x-' + inv_l[key]:
                problems.append({'desc': {'left': lmap, 'right': rmap, 'how': how}, 'msg': f'Join on a tuple-valued field: fields of {key!r} are {j.pair(key)!r}, {j.x(key)!r}'})
                break
    except Exception as e:
        problems.append({'desc': {'left': lmap, 'right': rmap, 'how': how}, 'msg': 'Join on a tuple-valued field raised ' + exc_name(e) + ': ' + str(e)[:150]})
    return problems


def run_typed_groupby(seed):
    """GroupBy('f') by a field whose values are tuples / lists of strings (the key is `to_key(value)`): the grouped field `f` itself, like
    every other field, maps the old ids of the group to their OLD values (C17)"""
    rng = random.Random(seed)
    from . import paths as paths_
    paths_.use_repo()
    import connectome as c
    ids = [f'i{k}' for k in range(rng.randint(2, 5))]
    shape = rng.choice(['one', 'pair', 'list'])
    val = {i: {'one': ('g%d' % (n % 2),), 'pair': ('g%d' % (n % 2), 'low'), 'list': ['g%d' % (n % 2)]}[shape] for n, i in enumerate(ids)}
    src = c.Transform(ids=c.meta(lambda: tuple(ids)), id=lambda id: id, label=lambda id: val[id], x=lambda id: 'x-' + id)
    problems = []
    try:
        g = src >> c.GroupBy('label')
        for key in g.ids:
            got = g.label(key)
            members = sorted(got)
            if any(got[i] != val[i] for i in members) or g.x(key) != {i: 'x-' + i for i in members}:
                problems.append({'desc': {'values': val}, 'msg': f'GroupBy("label") with {shape}-valued labels: label({key!r}) = {got!r}, '
                                                                 f'the old values are { {i: val[i] for i in members}!r}'})
                break
        allm = sorted(i for key in g.ids for i in g.label(key))
        if allm != sorted(ids):
            problems.append({'desc': {'values': val}, 'msg': f'GroupBy over tuple-valued labels: the groups hold {allm}, the entries are {sorted(ids)}'})
    except Exception as e:
        problems.append({'desc': {'values': val}, 'msg': 'GroupBy by a tuple-valued field raised ' + exc_name(e) + ': ' + str(e)[:150]})
    return problems


def run_mixed_numeric_join(seed):
    """Join on one field whose values are comparable numbers of different types on the two sides (int / float / numpy integers / bool): the ids
    are the sorted keys selected by the mode, in the order of the keys themselves (C16)"""
    import numpy as np
    from . import paths as paths_
    paths_.use_repo()
    import connectome as c
    rng = random.Random(seed)
    lk = rng.sample([1, 3, 5, 12, 30], rng.randint(2, 4))
    conv = rng.choice([float, np.int64, np.float32, lambda v: v])
    rk = [conv(v) for v in rng.sample([2, 4, 12, 25, 3], rng.randint(2, 4))]
    lmap = {f'l{j}': v for j, v in enumerate(lk)}
    rmap = {f'r{j}': v for j, v in enumerate(rk)}
    left = c.Transform(ids=c.meta((lambda t: lambda: t)(tuple(lmap))), id=lambda id: id, num=lambda id: lmap[id], x=lambda id: 'x-' + id)
    right = c.Transform(ids=c.meta((lambda t: lambda: t)(tuple(rmap))), id=lambda id: id, num=lambda id: rmap[id], z=lambda id: 'z-' + id)
    how = rng.choice(['inner', 'left', 'right', 'outer'])
    problems = []
    try:
        got = tuple(c.Join(left, right, 'num', how=how).ids)
        ls, rs = set(lk), set(rk)
        want = sorted({'inner': ls & rs, 'left': ls, 'right': rs, 'outer': ls | rs}[how])
        if [float(v) for v in got] != [float(v) for v in want]:
            problems.append({'desc': {'left': lk, 'right': [repr(v) for v in rk], 'how': how},
                             'msg': f'Join(how={how!r}) on a numeric field ({lk} vs {[repr(v) for v in rk]}): ids {got!r}, the sorted keys of the mode are {want!r}'})
    except Exception as e:
        problems.append({'desc': {'left': lk, 'right': [repr(v) for v in rk], 'how': how}, 'msg': 'Join on a numeric field raised ' + exc_name(e) + ': ' + str(e)[:150]})
    return problems


def run_checkids_typed(seed):
    """CheckIds over datasets whose ids are not strings (ints, also after Filter.keep and Merge): every field - `id` too - raises KeyError for a key
    of ANY type that is not among the ids (a string that prints like an id, a float, a tuple, bytes, None), and is transparent for the ids (C15)"""
    from . import paths as paths_
    paths_.use_repo()
    import connectome as c
    rng = random.Random(seed)
    ids = rng.sample([2, 9, 10, 30, 100, -1, 7], rng.randint(2, 5))
    problems = []
    try:
        src = c.Transform(ids=c.meta((lambda t: lambda: t)(tuple(ids))), id=lambda id: id, x=lambda id: ('x', id))
        shape = rng.choice(['plain', 'keep', 'merge'])
        if shape == 'keep':
            first = ids[0]
            ds = src >> c.Filter(lambda id: id != first)
            ids = ids[1:]
        elif shape == 'merge':
            other = [v + 1000 for v in ids]
            ds = c.Merge(src, c.Transform(ids=c.meta((lambda t: lambda: t)(tuple(other))), id=lambda id: id, x=lambda id: ('x', id)))
            ids = ids + other
        else:
            ds = src
        guarded = ds >> c.CheckIds()
        for i in ids[:3]:
            if guarded.x(i) != ('x', i) or guarded.id(i) != i:
                problems.append({'desc': {'ids': ids, 'shape': shape}, 'msg': f'CheckIds over int ids ({shape}): x({i!r}) = {guarded.x(i)!r}'})
        for key in [str(ids[0]), 'zz', float(ids[0]) + 0.5, (ids[0],), str(ids[0]).encode(), None, 5555]:
            for field in ('x', 'id'):
                try:
                    v = getattr(guarded, field)(key)
                    problems.append({'desc': {'ids': ids, 'shape': shape}, 'msg': f'CheckIds over int ids {ids} ({shape}): {field}({key!r}) returned {v!r} - the key is not among the ids'})
                except KeyError:
                    continue
                except Exception as e:
                    problems.append({'desc': {'ids': ids, 'shape': shape},
                                     'msg': f'CheckIds over int ids {ids} ({shape}): {field}({key!r}) raised {type(e).__name__} ({str(e)[:60]}), a foreign id is rejected with KeyError'})
                if problems:
                    return problems
    except Exception as e:
        problems.append({'desc': {'ids': ids}, 'msg': 'CheckIds over int ids raised ' + exc_name(e) + ': ' + str(e)[:150]})
    return problems
