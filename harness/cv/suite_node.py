"""S-NODE: the node-level container model (CM.Model.Bag) against the real `connect_bags`, `normalize_bag`,
`EdgesBag.loopback`, `GraphCompiler._validate_optionals` / `get_node`.

Pipelines of the other suites' generators (layer stacks in random bracketings, dataset-wide layers, loopback chains) are
built through the public API while `bagrec.Recorder` observes every call of those functions; the recorded arguments are
given to the Lean driver (`op: bag`) and its result is compared with what the real call returned, up to the identities
of the nodes.  The model's input is thus regenerated from the code on every run.  For every recorded `connect_bags` call
the driver also reports whether both operands satisfy the hypothesis of the bag theorems (`Bag.wfB`, proved sound):
those calls are instances of `CM.C02.connect_step`."""
import json, random
from . import bagrec, driver, refsem, rel, suite_bag, suite_ctx
from .pipeline import Builder
from .gen_pipe import gen_stack
from .sym import SymWorld
from .codec import exc_name


def drive(kind, seed):
    """build one pipeline of the given family and touch its fields, under the recorder's eyes"""
    rng = random.Random(seed)
    if kind == 'stack':
        # every other stack with many @optional marks and possibly-missing arguments (the C18 flavour of S-BAG)
        st = gen_stack(rng, max_layers=6) if seed % 2 else gen_stack(rng, max_layers=6, p_avail=0.6, p_opt=0.55)
        nested = suite_bag.nest(random.Random(seed + 1), st)
        b, layer, err = suite_bag.build(nested or st)
        if layer is not None:
            try:
                for n in dir(layer):
                    try:
                        layer._compile(n)
                    except Exception:
                        pass
            except Exception:
                pass
            try:
                layer._compile('zz')
            except Exception:
                pass
    elif kind == 'rel':
        d = rel.gen_rel(rng, None)
        b = Builder()
        try:
            layer = b.layer(d)
            try:
                dir(layer)
                layer.ids
            except Exception:
                pass
        except Exception:
            pass
    else:
        suite_ctx.run_case(seed)


def run_shard(args):
    seed, n = args[:2]
    kinds = args[2] if len(args) > 2 else ['stack', 'stack', 'rel', 'ctx']
    rec = bagrec.Recorder()
    fam = {}
    with rec.installed():
        for i in range(n):
            kind = kinds[i % len(kinds)]
            fam[kind] = fam.get(kind, 0) + 1
            try:
                drive(kind, seed * 9176 + i)
            except Exception:
                pass
    steps = []
    for r in rec.records:
        st = {'t': r['t']}
        for k in ('left', 'right', 'bag', 'fbag', 'names'):
            if k in r:
                st[k] = r[k]
        steps.append(st)
    bad, stats = [], {'records': len(rec.records), 'skipped': rec.skipped, 'by_op': {}, 'errors': {}, 'families': fam,
                      'theorem_instances': 0, 'wf_operands': 0, 'connect_calls': 0, 'max_edges': 0}
    outs = []
    for lo in range(0, len(steps), 200):
        ans = driver.run_lines([{'op': 'bag', 'steps': steps[lo:lo + 200]}])[0]
        if 'error' in ans:
            bad.append({'diff': {'driver': ans['error']}, 'record': {'t': 'batch'}})
            outs += [None] * len(steps[lo:lo + 200])
        else:
            outs += ans['outs']
    for r, a in zip(rec.records, outs):
        if a is None:
            continue
        stats['by_op'][r['t']] = stats['by_op'].get(r['t'], 0) + 1
        if 'err' in r['real']:
            stats['errors'][r['real']['err']] = stats['errors'].get(r['real']['err'], 0) + 1
        if r['t'] == 'connect':
            stats['connect_calls'] += 1
            stats['max_edges'] = max(stats['max_edges'], len(r['left']['edges']) + len(r['right']['edges']))
            wf = a.get('wf', [False, False])
            stats['wf_operands'] += int(wf[0]) + int(wf[1])
            if all(wf) and 'ok' in a:
                stats['theorem_instances'] += 1
                # what the theorem predicts for this instance: the result is well-formed again
                if not a.get('wf_result', True):
                    bad.append({'diff': {'theorem': 'connect_step predicts a well-formed result'}, 'record': r})
        d = bagrec.compare(r, a)
        if d is not None:
            slim = {k: v for k, v in r.items() if k != 'real'}
            bad.append({'diff': d, 'record': slim, 'real': r['real'] if 'err' in r['real'] else None})
    return stats, bad
