"""S-NODE: the node-level container model (CM.Model.Bag) against the real `connect_bags`, `normalize_bag`,
`EdgesBag.loopback`, `GraphCompiler._validate_optionals` / `get_node`.

Pipelines of the other suites' generators (layer stacks in random bracketings, dataset-wide layers, loopback chains) are
built through the public API while `bagrec.Recorder` observes every call of those functions; the recorded arguments are
given to the Lean driver (`op: bag`) and its result is compared with what the real call returned, up to the identities
of the nodes.  The model's input is thus regenerated from the code on every run.  For every recorded `connect_bags` call
the driver also reports whether both operands satisfy the hypothesis of the bag theorems (`Bag.wfB`, proved sound):
those calls are instances of `CM.C02.connect_step`."""
import json, random
from . import bagrec, driver, refsem, rel, suite_bag, suite_ctx
from .pipeline import Builder
from .gen_pipe import gen_stack
from .sym import SymWorld
from .codec import exc_name, canon, val_to_json
from .extract import Extractor, Unsupported
from .pipeline import observe


def drive(kind, seed):
    """build one pipeline of the given family and touch its fields, under the recorder's eyes"""
    rng = random.Random(seed)
    if kind == 'stack':
        # every other stack with many @optional marks and possibly-missing arguments (the C18 flavour of S-BAG)
        st = gen_stack(rng, max_layers=6) if seed % 2 else gen_stack(rng, max_layers=6, p_avail=0.6, p_opt=0.55)
        nested = suite_bag.nest(random.Random(seed + 1), st)
        if rng.random() < 0.25 and st['layers'] and st['layers'][0]['k'] == 'source':
            # a Source that is not at the head: a Transform computing the key comes first (the right operand of a connect_bags
            # call then carries persistent names)
            head = {'k': 'transform', 'cls': 'PreKey', 'fields': {'id': {'args': ['key'], 'f': 'prekey.id'}}, 'params': {}, 'cargs': {},
                    'defaults': {}}
            nested = {'k': 'chain', 'flavour': 'chain', 'layers': [head] + st['layers']}
            # the same Transform class is then used in front of something else: what it was composed with before must not matter
            try:
                b0 = Builder()
                hl = b0.layer(head)
                (hl >> b0.layer(st['layers'][0]))
                tail = [l for l in st['layers'][1:] if l['k'] == 'transform'][:1]
                if tail:
                    t2 = hl >> b0.layer(tail[0])
                    dir(t2)
            except Exception:
                pass
        b, layer, err = suite_bag.build(nested or st)
        if layer is not None:
            try:
                for n in dir(layer):
                    try:
                        layer._compile(n)
                    except Exception:
                        pass
            except Exception:
                pass
            try:
                layer._compile('zz')
            except Exception:
                pass
    elif kind == 'rel':
        d = rel.gen_rel(rng, None)
        b = Builder()
        try:
            layer = b.layer(d)
            try:
                dir(layer)
                layer.ids
            except Exception:
                pass
        except Exception:
            pass
    else:
        suite_ctx.run_case(seed)


def run_shard(args):
    seed, n = args[:2]
    kinds = args[2] if len(args) > 2 else ['stack', 'stack', 'rel', 'ctx']
    rec = bagrec.Recorder()
    fam = {}
    with rec.installed():
        for i in range(n):
            kind = kinds[i % len(kinds)]
            fam[kind] = fam.get(kind, 0) + 1
            try:
                drive(kind, seed * 9176 + i)
            except Exception:
                pass
    steps = []
    for r in rec.records:
        st = {'t': r['t']}
        for k in ('left', 'right', 'bag', 'fbag', 'names'):
            if k in r:
                st[k] = r[k]
        steps.append(st)
    bad, stats = [], {'records': len(rec.records), 'skipped': rec.skipped, 'by_op': {}, 'errors': {}, 'families': fam,
                      'theorem_instances': 0, 'wf_operands': 0, 'connect_calls': 0, 'max_edges': 0}
    outs = []
    for lo in range(0, len(steps), 200):
        ans = driver.run_lines([{'op': 'bag', 'steps': steps[lo:lo + 200]}])[0]
        if 'error' in ans:
            bad.append({'diff': {'driver': ans['error']}, 'record': {'t': 'batch'}})
            outs += [None] * len(steps[lo:lo + 200])
        else:
            outs += ans['outs']
    for r, a in zip(rec.records, outs):
        if a is None:
            continue
        stats['by_op'][r['t']] = stats['by_op'].get(r['t'], 0) + 1
        if 'err' in r['real']:
            stats['errors'][r['real']['err']] = stats['errors'].get(r['real']['err'], 0) + 1
        if r['t'] == 'connect':
            stats['connect_calls'] += 1
            stats['max_edges'] = max(stats['max_edges'], len(r['left']['edges']) + len(r['right']['edges']))
            wf = a.get('wf', [False, False])
            stats['wf_operands'] += int(wf[0]) + int(wf[1])
            if all(wf) and 'ok' in a:
                stats['theorem_instances'] += 1
                # what the theorem predicts for this instance: the result is well-formed again
                if not a.get('wf_result', True):
                    bad.append({'diff': {'theorem': 'connect_step predicts a well-formed result'}, 'record': r})
        d = bagrec.compare(r, a)
        if d is not None:
            slim = {k: v for k, v in r.items() if k != 'real'}
            bad.append({'diff': d, 'record': slim, 'real': r['real'] if 'err' in r['real'] else None})
    return stats, bad


# ---------------------------------------------------------------- end to end through the model's own compiler

def real_bag_json(bag, ex):
    """the real container with the real edge kinds (functions by their symbolic names), for `Bag.compileGraph` and the VM"""
    ids = {}

    def nid(n):
        if id(n) not in ids:
            ids[id(n)] = len(ids)
        return [ids[id(n)], n.name]
    rec = bagrec.Recorder()
    d = {'inputs': [nid(n) for n in bag.inputs], 'outputs': [nid(n) for n in bag.outputs],
         'edges': [{'e': ex.edge(e.edge), 'ins': [nid(i) for i in e.inputs], 'out': nid(e.output)} for e in bag.edges],
         'virt': rec.nameset(bag.virtual), 'persistent': sorted(bag.persistent), 'optional': [nid(n) for n in bag.optional],
         'ctx': {'k': 'no'}}
    d['next'] = len(ids)
    return d


def e2e_case(seed):
    """a layer stack built by the real code; its final container is handed to the model, which validates it, resolves the
    field, builds the graph (`Bag.compileGraph`) and runs the VM model on it; values, signatures and error classes are
    compared with what the real compiled function returns on the same symbolic inputs"""
    rng = random.Random(seed)
    st = gen_stack(rng, max_layers=6) if seed % 2 else gen_stack(rng, max_layers=6, p_avail=0.6, p_opt=0.55)
    b, layer, err = suite_bag.build(suite_bag.nest(random.Random(seed + 1), st) or st)
    if layer is None:
        return None
    names = suite_bag.NAMES
    obs = observe(b, layer, names)
    ex = Extractor(b.world)
    try:
        bag = real_bag_json(layer._container, ex)
    except Unsupported:
        return None
    steps = []
    for n in names:
        f = obs['fields'][n]
        env = {p: '$' + p for p in f.get('sig', [])} if not f.get('identity') else {}
        steps.append({'t': 'call', 'bag': bag, 'name': n, 'env': env, 'stores': [size for _, size in ex.stores],
                      'impure': sorted(b.world.impure), 'const_fns': [[k, val_to_json(v, b.world)] for k, v in b.world.consts.items()]})
    # multi-field requests: `_compile((n1, ..., nk))` of the real code against the model's product node over the same container
    tuples = []
    if 'dir_err' not in obs:
        ok_names = [n for n in names if 'err' not in obs['fields'][n]]
        for _ in range(2):
            if not ok_names:
                break
            req = [rng.choice(ok_names) for _ in range(rng.choice([1, 2, 2, 3]))]
            rec = {'names': req}
            try:
                fn = layer._compile(tuple(req))
                sig = list(fn.__signature__.parameters)
                rec['sig'] = sig
                try:
                    rec['value'] = val_to_json(fn(*['$' + p_ for p_ in sig]), b.world)
                except Exception as e:
                    rec['value_err'] = exc_name(e)
            except Exception as e:
                rec['err'] = exc_name(e)
            tuples.append(rec)
            env = {p_: '$' + p_ for p_ in rec.get('sig', [])}
            steps.append({'t': 'call_tuple', 'bag': bag, 'names': req, 'env': env, 'stores': [size for _, size in ex.stores],
                          'impure': sorted(b.world.impure), 'const_fns': [[k, val_to_json(v, b.world)] for k, v in b.world.consts.items()]})
    return {'stack': st, 'obs': obs, 'steps': steps, 'names': names, 'world': b.world, 'tuples': tuples}


def e2e_compare(case, outs):
    obs, bad, n_ok, inst = case['obs'], [], 0, 0
    for name, a in zip(case['names'], outs):
        if 'dir_err' in obs:
            if a.get('err') != obs['dir_err']:
                bad.append({'field': name, 'real': obs['dir_err'], 'model': a})
            continue
        f = obs['fields'][name]
        if 'err' in f:
            if a.get('err') != f['err']:
                bad.append({'field': name, 'real': f['err'], 'model': a})
            continue
        if f.get('identity'):
            if not a.get('identity') and not (a.get('sig') == [name]):
                bad.append({'field': name, 'real': 'identity', 'model': a})
            continue
        if 'r' not in a:
            bad.append({'field': name, 'real': f.get('sig'), 'model': a})
            continue
        if a.get('sig') != f['sig']:
            bad.append({'field': name, 'what': 'signature', 'real': f['sig'], 'model': a.get('sig')})
            continue
        if 'value' in f:
            if 'ok' not in a['r'] or canon(a['r']['ok']) != canon(f['value']):
                bad.append({'field': name, 'what': 'value', 'real': f['value'], 'model': a['r']})
                continue
            n_ok += 1
        elif a['r'].get('err') != f.get('value_err'):
            bad.append({'field': name, 'what': 'exception', 'real': f.get('value_err'), 'model': a['r']})
            continue
        if a.get('graph_ok') and a.get('call_ok'):
            inst += 1
        # CM.C02.node_compile_ok: a well-formed bag with simple edges compiles to a graph that passes the executable check
        if a.get('compile_hyp'):
            case['compile_ok_instances'] = case.get('compile_ok_instances', 0) + 1
            if not a.get('okB'):
                bad.append({'field': name, 'what': 'theorem node_compile_ok contradicted: Graph.okB is false for the compiled graph'})
        # CM.C02.node_pipeline_value: where its hypotheses hold (evaluated by the driver) the value of the node's term under the
        # specification is what the REAL compiled function returned
        if a.get('pipeline_hyp') and a.get('predicted') is not None and 'value' in f:
            case.setdefault('pipeline_instances', 0)
            case['pipeline_instances'] += 1
            pred = a['predicted']
            if 'ok' not in pred or canon(pred['ok']) != canon(f['value']):
                bad.append({'field': name, 'what': 'theorem node_pipeline_value contradicted by the real value', 'real': f['value'], 'predicted': pred})
    for rec, a in zip(case.get('tuples', []), outs[len(case['names']):]):
        case['tuple_requests'] = case.get('tuple_requests', 0) + 1
        if 'err' in rec:
            if a.get('err') != rec['err']:
                bad.append({'tuple': rec['names'], 'real': rec['err'], 'model': a})
            continue
        if 'r' not in a:
            bad.append({'tuple': rec['names'], 'real': rec.get('sig'), 'model': a})
        elif a.get("sig", []) != rec["sig"]:          # the parameters of a compiled function are ordered by name
            bad.append({'tuple': rec['names'], 'what': 'signature', 'real': rec['sig'], 'model': a.get('sig')})
        elif 'value' in rec:
            if 'ok' not in a['r'] or canon(a['r']['ok']) != canon(rec['value']):
                bad.append({'tuple': rec['names'], 'what': 'value (a tuple in request order)', 'real': rec['value'], 'model': a['r']})
            else:
                n_ok += 1
        elif a['r'].get('err') != rec.get('value_err'):
            bad.append({'tuple': rec['names'], 'what': 'exception', 'real': rec.get('value_err'), 'model': a['r']})
    return bad, n_ok, inst


def run_e2e_shard(args):
    seed, n = args
    cases = [c for c in (e2e_case(seed * 5231 + i) for i in range(n)) if c is not None]
    stats = {'pipelines': len(cases), 'fields': 0, 'values_equal': 0, 'vm_theorem_instances': 0, 'pipeline_value_instances': 0, 'compile_ok_instances': 0}
    bad = []
    for c in cases:
        ans = driver.run_lines([{'op': 'bag', 'steps': c['steps']}])[0]
        if 'error' in ans:
            bad.append({'stack': c['stack'], 'diff': [{'driver': ans['error']}]})
            continue
        d, ok, inst = e2e_compare(c, ans['outs'])
        stats['fields'] += len(c['names'])
        stats['values_equal'] += ok
        stats['vm_theorem_instances'] += inst
        stats['pipeline_value_instances'] += c.get('pipeline_instances', 0)
        stats['compile_ok_instances'] += c.get('compile_ok_instances', 0)
        stats['tuple_requests'] = stats.get('tuple_requests', 0) + c.get('tuple_requests', 0)
        if d:
            bad.append({'stack': c['stack'], 'diff': json.loads(json.dumps(d[:3], default=str))})
    return stats, bad
