"""cv: correspondence and oracle harness tying the Lean model (/verif/lean) to /repo's working tree."""
